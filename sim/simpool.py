"""
SimPool: a discrete-event simulated process pool (DESIGN.md section 4).

`multiprocessing.Pool` (and the other pool/executor entry points) are replaced by
facades. While a `Kernel` is active every pool the code under test creates is a
`SimPool`: n simulated workers, a FIFO task queue, virtual time. Which idle worker
takes the next chunk, how long each chunk takes, which of several simultaneous
events happens first, when a worker stalls - all of that is read from the *plan*
(`sched`), never from a PRNG or a clock, so one plan is one exactly repeatable
execution.

The parent (the real aotools code) is the only thread of control. Whenever it
blocks on the pool (map, get, wait, join, iterating imap*) the event loop runs.

Two execution modes for the task bodies:
  inproc : tasks run in this process behind a pickle boundary (ForkingPickler, as the real pool)
  forked : n real worker processes are forked when the pool is created (snapshot
           semantics of the fork start method); a task is shipped to its worker
           when the DES starts it and its result is handed over when the DES
           completes it. Real processes, simulator-decided order.
"""
import concurrent.futures as _cf
import heapq
import multiprocessing as _mp
import multiprocessing.pool as _mpp
import os
import pickle
import signal
import struct
import threading as _threading
from multiprocessing.reduction import ForkingPickler

# private references to the real things
_REAL = {
    "mp.Pool": _mp.Pool,
    "mpp.Pool": _mpp.Pool,
    "mpp.ThreadPool": _mpp.ThreadPool,
    "cf.ProcessPoolExecutor": _cf.ProcessPoolExecutor,
    "cf.ThreadPoolExecutor": _cf.ThreadPoolExecutor,
    "cf.as_completed": _cf.as_completed,
    "cf.wait": _cf.wait,
    "os.fork": os.fork,
    "Thread.start": _threading.Thread.start,
}

_ACTIVE = [None]          # the Kernel of the run that is executing, or None


def active():
    return _ACTIVE[0]


def _xfer(obj):
    """what crosses a process boundary: pickled by the pool's own pickler, unpickled on the other side"""
    return pickle.loads(bytes(ForkingPickler.dumps(obj)))


class SimDeadlock(RuntimeError):
    pass


DEFAULT_SCHED = {"dur": [1.0], "lat": [0.0], "slow": {}, "stall": [], "tie": [0], "chunk": "default", "advance": 0, "tslice": [1000000], "tmo": [1], "fail": []}


class Kernel(object):
    """virtual clock + event heap shared by every SimPool of one run"""

    def __init__(self, res=None, log=None):
        self.now = 0.0
        self.seq = 0
        self.heap = []               # (time, seq, kind, pool, payload)
        self.pools = []
        self.res = res
        self.log = log
        self.sched = dict(DEFAULT_SCHED)
        self.mode = "inproc"
        self.item_counter = 0
        self.tie_counter = 0
        self.children = []           # pids of forked lock-step workers
        self.child_fds = []
        self.uncontrolled = 0
        self.maps = []               # per map call: dict(n_workers, chunks, completion order)
        self.events_run = 0
        self.tmo_counter = 0
        self.task_counter = 0
        self.failed_tasks = 0
        self.threads_in_flight = []  # tasks of thread pools whose bodies have not finished
        self.tslice_counter = 0

    # ---- configuration per build -------------------------------------------------------------
    def configure(self, sched, mode="inproc"):
        s = dict(DEFAULT_SCHED)
        s.update(sched or {})
        for k in ("dur", "lat", "tie"):
            if not s[k]:
                s[k] = list(DEFAULT_SCHED[k])
        self.sched = s
        self.mode = mode
        self.item_counter = 0
        self.tie_counter = 0
        self.task_counter = 0

    def __enter__(self):
        if _ACTIVE[0] is not None:
            raise RuntimeError("nested simulation")
        _ACTIVE[0] = self
        return self

    def __exit__(self, *exc):
        _ACTIVE[0] = None
        self.shutdown()
        return False

    # ---- scheduling decisions, all read from the plan ---------------------------------------------
    def _tie(self, n):
        if n <= 1:
            return 0
        t = self.sched["tie"]
        v = t[self.tie_counter % len(t)]
        self.tie_counter += 1
        return int(v) % n

    def _item_duration(self):
        d = self.sched["dur"]
        v = d[self.item_counter % len(d)]
        self.item_counter += 1
        return max(1e-6, float(v))

    def push(self, t, kind, pool, payload):
        self.seq += 1
        heapq.heappush(self.heap, (t, self.seq, kind, pool, payload))

    # ---- the event loop ------------------------------------------------------------------------------
    def step(self):
        """process one event; returns False when nothing can happen any more"""
        # 1. match idle workers with queued chunks (at the current time)
        for pool in self.pools:
            if pool._dispatch():
                self.events_run += 1
                return True
        if not self.heap:
            return False
        # 2. among the events with the smallest time stamp the plan picks one
        t0 = self.heap[0][0]
        same = []
        while self.heap and self.heap[0][0] == t0:
            same.append(heapq.heappop(self.heap))
        k = self._tie(len(same))
        ev = same.pop(k)
        if k != 0 and self.res is not None:
            self.res.count("sched.tie_reordered")
        for e in same:
            heapq.heappush(self.heap, e)
        self.now = max(self.now, ev[0])
        _, _, kind, pool, payload = ev
        if kind == "ready":
            pool._worker_ready(payload)
        elif kind == "done":
            pool._task_done(payload)
        self.events_run += 1
        return True

    def run_until(self, cond, what="result"):
        guard = 0
        while not cond():
            if not self.step():
                raise SimDeadlock("SimPool: parent waits for %s but no simulated event can ever happen "
                                  "(a real pool would hang here)" % what)
            guard += 1
            if guard > 2000000:
                raise SimDeadlock("SimPool: event budget exhausted while waiting for %s" % what)

    def advance(self, n):
        for _ in range(n):
            if not self.step():
                break

    def timeout_fires(self):
        t = self.sched.get("tmo") or [1]
        v = t[self.tmo_counter % len(t)]
        self.tmo_counter += 1
        if v and self.res is not None:
            self.res.count("fault.bounded_wait_timed_out")
        return bool(v)

    def run_threads_until(self, target):
        """co-schedule the bodies of all thread-pool tasks in flight, a plan-given slice of aotools lines at a time,
        until `target`'s body has finished"""
        sl = self.sched.get("tslice") or [7]
        guard = 0
        while not target.tthread.finished:
            live = [t for t in self.threads_in_flight if not t.tthread.finished]
            if not live:
                break
            t = live[self._tie(len(live))] if len(live) > 1 else live[0]
            budget = sl[self.tslice_counter % len(sl)]
            self.tslice_counter += 1
            if len(live) > 1 and self.res is not None:
                self.res.count("sched.thread_switches")
            t.tthread.resume(budget)
            guard += 1
            if guard > 5000000:
                raise SimDeadlock("thread scheduler: budget exhausted")
        self.threads_in_flight = [t for t in self.threads_in_flight if not t.tthread.finished]

    # ---- teardown ------------------------------------------------------------------------------------
    def shutdown(self):
        for p in self.pools:
            p._detach()
        for fd in self.child_fds:
            try:
                os.close(fd)
            except OSError:
                pass
        self.child_fds = []
        for pid in self.children:
            try:
                os.kill(pid, signal.SIGKILL)
            except OSError:
                pass
        for pid in self.children:
            try:
                os.waitpid(pid, 0)
            except OSError:
                pass
        self.children = []
        self.pools = []
        self.heap = []


_AOT_DIR = [None]


def _aotools_dir():
    if _AOT_DIR[0] is None:
        try:
            import aotools
            _AOT_DIR[0] = os.path.dirname(os.path.abspath(aotools.__file__)) + os.sep
        except Exception:
            _AOT_DIR[0] = "\0"
    return _AOT_DIR[0]


class _TaskThread(object):
    """One task of a *thread* pool. Threads share memory with the parent and with each other, so how their bodies
    interleave matters. The body runs in a real thread, but only while it holds the baton: the scheduler resumes it for a
    plan-given number of line events inside aotools code, then it parks again. One thread runs at a time, switch points
    are counted lines: the interleaving is decided by the plan and replays exactly."""

    def __init__(self, body):
        self.body = body
        self.go = _threading.Event()
        self.back = _threading.Event()
        self.finished = False
        self.started = False
        self.outcome = None
        self.budget = 0
        self.lines = 0
        self.thread = _threading.Thread(target=self._run, daemon=True)

    def _run(self):
        import sys
        self.go.wait()
        self.go.clear()
        sys.settrace(self._trace_global)
        try:
            self.outcome = (True, self.body())
        except BaseException as e:          # noqa: B902 - delivered to the parent like a pool does
            self.outcome = (False, e)
        finally:
            sys.settrace(None)
            self.finished = True
            self.back.set()

    def _trace_global(self, frame, event, arg):
        if frame.f_code.co_filename.startswith(_aotools_dir()):
            return self._trace_local
        return None

    def _trace_local(self, frame, event, arg):
        if event == "line":
            self.lines += 1
            self.budget -= 1
            if self.budget <= 0:
                self.back.set()             # hand the baton back
                self.go.wait()              # parked until the scheduler resumes this thread
                self.go.clear()
        return self._trace_local

    def resume(self, budget):
        self.budget = max(1, int(budget))
        self.back.clear()
        if not self.started:
            self.started = True
            _REAL["Thread.start"](self.thread)
        self.go.set()
        self.back.wait()


class _Task(object):
    __slots__ = ("func", "items", "star", "kwds", "sink", "index", "duration", "worker", "outcome", "n", "tthread")

    def __init__(self, func, items, star, kwds, sink, index):
        self.func, self.items, self.star, self.kwds, self.sink, self.index = func, items, star, kwds, sink, index
        self.duration = 0.0
        self.worker = None
        self.outcome = None
        self.tthread = None
        self.n = len(items)


def _run_chunk(func, items, star, kwds):
    out = []
    for it in items:
        if star == "apply":
            out.append(func(*it, **(kwds or {})))
        elif star:
            out.append(func(*it))
        else:
            out.append(func(it))
    return out


class _AsyncResult(object):
    """ApplyResult / MapResult of the simulated pool"""

    def __init__(self, pool, n_chunks, single, callback, error_callback, meta=None):
        self._pool = pool
        self._k = pool._kernel
        self._n = n_chunks
        self._single = single
        self._cb, self._ecb = callback, error_callback
        self._chunks = [None] * n_chunks
        self._got = 0
        self._done = n_chunks == 0
        self._ok = True
        self._value = [] if not single else None
        self._order = []             # completion order of the chunks
        self._meta = meta

    def _deliver(self, task):
        ok, val = task.outcome
        self._order.append(task.index)
        if self._done:
            return
        if ok:
            self._chunks[task.index] = val
            self._got += 1
            if self._got == self._n:
                flat = [x for c in self._chunks for x in c]
                self._value = flat[0] if self._single else flat
                self._done = True
                if self._cb is not None:
                    self._cb(self._value)
        else:
            self._ok = False
            self._value = val
            self._done = True
            if self._ecb is not None:
                self._ecb(val)
        if self._done and self._meta is not None:
            self._meta["completion"] = list(self._order)

    def ready(self):
        return self._done

    def successful(self):
        if not self._done:
            raise ValueError("{0!r} not ready".format(self))
        return self._ok

    def wait(self, timeout=None):
        if timeout is not None and not self._done:
            # a bounded wait lets a plan-decided amount of simulated progress happen; if the result is still missing the
            # plan decides whether the wait times out now or the result arrives just in time
            self._k.advance(1 + self._k.sched.get("advance", 0))
            if not self._done and not self._k.timeout_fires():
                self._k.run_until(lambda: self._done, "an async result")
            return
        self._k.run_until(lambda: self._done, "an async result")

    def get(self, timeout=None):
        self.wait(timeout)
        if not self._done:
            raise _mp.TimeoutError
        if self._ok:
            return self._value
        raise self._value


class _IMapIterator(object):
    def __init__(self, pool, n_items, ordered):
        self._k = pool._kernel
        self._ordered = ordered
        self._n = n_items
        self._slots = {}
        self._ready = []
        self._next = 0
        self._yielded = 0
        self._order = []
        self._offsets = []

    def _deliver(self, task):
        ok, val = task.outcome
        self._order.append(task.index)
        base = self._offsets[task.index]
        if ok:
            vals = [(True, v) for v in val]
        else:
            vals = [(False, val)] * task.n
        for j, v in enumerate(vals):
            if self._ordered:
                self._slots[base + j] = v
            else:
                self._ready.append(v)

    def __iter__(self):
        return self

    def _have(self):
        if self._ordered:
            return self._next in self._slots
        return bool(self._ready)

    def __next__(self, timeout=None):
        if self._yielded >= self._n:
            raise StopIteration
        if timeout is not None and not self._have():
            # a bounded wait: some simulated progress happens; whether the item arrives in time is the plan's decision
            self._k.advance(1 + int(self._k.sched.get("advance", 0)))
            if not self._have():
                if self._k.timeout_fires():
                    raise _mp.TimeoutError
        self._k.run_until(self._have, "the next imap item")
        if self._ordered:
            ok, v = self._slots.pop(self._next)
            self._next += 1
        else:
            ok, v = self._ready.pop(0)
        self._yielded += 1
        if ok:
            return v
        raise v

    next = __next__


class SimPool(object):
    def __init__(self, kernel, processes=None, initializer=None, initargs=(), maxtasksperchild=None, context=None,
                 flavour="process"):
        if processes is None:
            processes = 4
        if processes < 1:
            raise ValueError("Number of processes must be at least 1")
        if initializer is not None and not callable(initializer):
            raise TypeError("initializer must be a callable")
        self._kernel = kernel
        self._n = int(processes)
        self._flavour = flavour
        self._state = "RUN"
        self._queue = []
        self._idle = []
        self._busy = {}
        self._taken = [0] * self._n
        self._outstanding = 0
        self._mode = kernel.mode if flavour == "process" else "inproc"
        self._pipes = {}
        self._init = (initializer, initargs)
        self._detached = False
        kernel.pools.append(self)
        if kernel.res is not None:
            kernel.res.count("pool.created")
            kernel.res.count("pool.mode.%s" % self._mode)
        if self._mode == "forked":
            self._fork_workers(initializer, initargs)
        elif initializer is not None:
            for _ in range(self._n):
                initializer(*initargs)
        lat = kernel.sched["lat"]
        for w in range(self._n):
            l = float(lat[w % len(lat)])
            if l > 0 and kernel.res is not None:
                kernel.res.count("fault.late_start_worker")
            kernel.push(kernel.now + l, "ready", self, w)

    # ---- surviving the simulation run that created the pool ------------------------------------------
    def _detach(self):
        """the run ends; the code under test may keep this pool (on an object, in a module dict) and use it again in a
        later run: a legal design. Its simulated workers go idle; forked lock-step workers are stopped."""
        if self._state == "RUN":
            self._detached = True
        self._queue = []
        self._busy = {}
        self._idle = []
        self._outstanding = 0
        self._pipes = {}

    def _adopt(self):
        k = _ACTIVE[0]
        if k is None:
            if self._detached:
                raise RuntimeError("simulated pool used while no simulation is active (harness limitation)")
            return
        if k is self._kernel:
            return
        # continue to live in the current run: all workers idle, nothing queued
        self._kernel = k
        self._detached = False
        k.pools.append(self)
        self._mode = k.mode if self._flavour == "process" else "inproc"
        if k.res is not None:
            k.res.count("pool.reused_from_an_earlier_run")
        if self._mode == "forked":
            self._fork_workers(*self._init)       # limitation: the fork snapshot is refreshed at this point
        for w in range(self._n):
            k.push(k.now, "ready", self, w)

    # ---- forked lock-step workers ---------------------------------------------------------------
    def _fork_workers(self, initializer, initargs):
        k = self._kernel
        for w in range(self._n):
            p2c_r, p2c_w = os.pipe()
            c2p_r, c2p_w = os.pipe()
            pid = _REAL["os.fork"]()
            if pid == 0:
                try:
                    signal.alarm(0)
                    os.close(p2c_w)
                    os.close(c2p_r)
                    for fd in k.child_fds:
                        try:
                            os.close(fd)
                        except OSError:
                            pass
                    _ACTIVE[0] = None
                    if initializer is not None:
                        initializer(*initargs)
                    _child_loop(p2c_r, c2p_w)
                finally:
                    os._exit(0)
            os.close(p2c_r)
            os.close(c2p_w)
            k.children.append(pid)
            k.child_fds.extend([p2c_w, c2p_r])
            self._pipes[w] = (p2c_w, c2p_r)
            if k.res is not None:
                k.res.count("pool.forked_workers")

    def _remote(self, w, task):
        wfd, rfd = self._pipes[w]
        try:
            blob = bytes(ForkingPickler.dumps((task.func, task.items, task.star, task.kwds)))
        except Exception as e:           # the real pool fails at the same place (task cannot be pickled)
            return (False, e)
        _send(wfd, blob)
        data = _recv(rfd)
        if data is None:
            return (False, RuntimeError("simulated worker process died"))
        return pickle.loads(data)

    # ---- DES callbacks -----------------------------------------------------------------------------
    def _worker_ready(self, w):
        if self._state == "TERMINATE":
            return
        self._idle.append(w)

    def _dispatch(self):
        if self._state == "TERMINATE" or not self._queue or not self._idle:
            return False
        k = self._kernel
        self._idle.sort()
        w = self._idle.pop(k._tie(len(self._idle)))
        task = self._queue.pop(0)
        task.worker = w
        self._taken[w] += 1
        dur = sum(k._item_duration() for _ in range(max(1, task.n)))
        slow = k.sched["slow"].get(str(w))
        if slow:
            dur *= float(slow)
            if k.res is not None:
                k.res.count("fault.slow_worker_task")
        task.duration = dur
        k.task_counter += 1
        if (k.task_counter - 1) in [int(x) for x in (k.sched.get("fail") or [])]:
            # injected fault: this task dies of a failed allocation inside the worker
            task.outcome = (False, MemoryError("injected: worker could not allocate"))
            k.failed_tasks += 1
            if k.res is not None:
                k.res.count("fault.task_raised_MemoryError")
            self._busy[w] = task
            k.push(k.now + dur, "done", self, task)
            return True
        # the task body runs when the DES starts it
        if self._flavour == "thread":
            # threads: no pickle boundary, shared memory; the body runs interleaved with the other tasks in flight
            f, items, star, kw = task.func, task.items, task.star, task.kwds
            task.tthread = _TaskThread(lambda: _run_chunk(f, items, star, kw))
            k.threads_in_flight.append(task)
            if k.res is not None:
                k.res.count("pool.thread_tasks")
        elif self._mode == "forked":
            task.outcome = self._remote(w, task)
        else:
            try:
                f = _xfer(task.func)
                items = _xfer(task.items)
                kw = _xfer(task.kwds) if task.kwds else task.kwds
                task.outcome = (True, _xfer(_run_chunk(f, items, task.star, kw)))
            except Exception as e:
                task.outcome = (False, e)
        if k.log is not None:
            k.log.sched("start", round(k.now, 9), w, task.index, task.n)
        self._busy[w] = task
        k.push(k.now + dur, "done", self, task)
        return True

    def _task_done(self, task):
        k = self._kernel
        w = task.worker
        self._busy.pop(w, None)
        if self._state == "TERMINATE":
            return
        if task.tthread is not None:
            k.run_threads_until(task)
            task.outcome = task.tthread.outcome
        if k.log is not None:
            k.log.sched("done", round(k.now, 9), w, task.index)
        self._outstanding -= 1
        task.sink._deliver(task)
        delay = 0.0
        for sw, at, extra in k.sched["stall"]:
            if int(sw) % self._n == w and int(at) == self._taken[w]:
                delay += float(extra)
                if k.res is not None:
                    k.res.count("fault.stalled_worker")
        k.push(k.now + delay, "ready", self, w)

    # ---- submission ------------------------------------------------------------------------------------
    def _check_running(self):
        self._adopt()
        if self._state != "RUN":
            raise ValueError("Pool not running")

    def _chunks(self, items, chunksize, default_rule):
        n = len(items)
        mode = self._kernel.sched["chunk"]
        if chunksize is None:
            if default_rule == "map":
                chunksize, extra = divmod(n, self._n * 4)
                if extra:
                    chunksize += 1
            else:
                chunksize = 1
            # chunking is a legal degree of freedom of the pool only when the caller left it open
            if mode == "one":
                chunksize = 1
            elif mode == "single" and n:
                chunksize = n
        if n == 0:
            return []
        chunksize = max(1, int(chunksize))
        return [items[i:i + chunksize] for i in range(0, n, chunksize)]

    def _submit(self, func, chunks, star, kwds, sink):
        k = self._kernel
        for i, c in enumerate(chunks):
            self._queue.append(_Task(func, c, star, kwds, sink, i))
            self._outstanding += 1
        if k.res is not None:
            k.res.count("pool.tasks_submitted", len(chunks))
        adv = int(k.sched.get("advance", 0))
        if adv:
            k.advance(adv)

    def _map_meta(self, kind, chunks):
        meta = {"kind": kind, "workers": self._n, "chunks": [len(c) for c in chunks], "completion": None,
                "mode": self._mode}
        self._kernel.maps.append(meta)
        return meta

    def map_async(self, func, iterable, chunksize=None, callback=None, error_callback=None, _star=False, _kind="map"):
        self._check_running()
        items = list(iterable)
        chunks = self._chunks(items, chunksize, "map")
        r = _AsyncResult(self, len(chunks), False, callback, error_callback, self._map_meta(_kind, chunks))
        self._submit(func, chunks, _star, None, r)
        return r

    def map(self, func, iterable, chunksize=None):
        return self.map_async(func, iterable, chunksize).get()

    def starmap_async(self, func, iterable, chunksize=None, callback=None, error_callback=None):
        return self.map_async(func, iterable, chunksize, callback, error_callback, _star=True, _kind="starmap")

    def starmap(self, func, iterable, chunksize=None):
        return self.starmap_async(func, iterable, chunksize).get()

    def _imap(self, func, iterable, chunksize, ordered):
        self._check_running()
        items = list(iterable)
        if chunksize is not None and chunksize < 1:
            raise ValueError("Chunksize must be 1+, not {0:n}".format(chunksize))
        chunks = self._chunks(items, chunksize, "imap")
        it = _IMapIterator(self, len(items), ordered)
        off = 0
        for c in chunks:
            it._offsets.append(off)
            off += len(c)
        meta = self._map_meta("imap" if ordered else "imap_unordered", chunks)
        meta["completion"] = it._order
        self._submit(func, chunks, False, None, it)
        return it

    def imap(self, func, iterable, chunksize=1):
        return self._imap(func, iterable, chunksize, True)

    def imap_unordered(self, func, iterable, chunksize=1):
        return self._imap(func, iterable, chunksize, False)

    def apply_async(self, func, args=(), kwds={}, callback=None, error_callback=None):
        self._check_running()
        chunks = [[tuple(args)]]
        r = _AsyncResult(self, 1, True, callback, error_callback, self._map_meta("apply", chunks))
        self._submit(func, chunks, "apply", dict(kwds), r)
        return r

    def apply(self, func, args=(), kwds={}):
        return self.apply_async(func, args, kwds).get()

    # ---- life cycle ------------------------------------------------------------------------------------
    def close(self):
        self._adopt()
        if self._state == "RUN":
            self._state = "CLOSE"

    def terminate(self):
        self._state = "TERMINATE"
        self._queue = []

    def join(self):
        self._adopt()
        if self._state == "RUN":
            raise ValueError("Pool is still running")
        if self._state == "CLOSE":
            self._kernel.run_until(lambda: self._outstanding <= 0, "pool.join")

    def __enter__(self):
        self._check_running()
        return self

    def __exit__(self, *exc):
        self.terminate()

    def __reduce__(self):
        raise NotImplementedError("pool objects cannot be passed between processes or pickled")


# ---- Executor API ------------------------------------------------------------------------------------
class SimFuture(_cf.Future):
    def __init__(self, kernel):
        super().__init__()
        self._sim_kernel = kernel

    def result(self, timeout=None):
        if not self.done():
            self._sim_kernel.run_until(self.done, "a future")
        return super().result(0)

    def exception(self, timeout=None):
        if not self.done():
            self._sim_kernel.run_until(self.done, "a future")
        return super().exception(0)


class _FutureSink(object):
    def __init__(self, fut):
        self.fut = fut

    def _deliver(self, task):
        ok, val = task.outcome
        if self.fut.cancelled():
            return
        if ok:
            self.fut.set_result(val[0])
        else:
            self.fut.set_exception(val)


class SimExecutor(_cf.Executor):
    def __init__(self, kernel, max_workers=None, flavour="process", initializer=None, initargs=()):
        self._pool = SimPool(kernel, max_workers, initializer, initargs, flavour=flavour)
        self._kernel = kernel
        self._shutdown = False

    def submit(self, fn, /, *args, **kwargs):
        if self._shutdown:
            raise RuntimeError("cannot schedule new futures after shutdown")
        fut = SimFuture(self._kernel)
        fut.set_running_or_notify_cancel()
        self._pool._map_meta("submit", [[0]])["completion"] = None
        self._pool._submit(fn, [[tuple(args)]], "apply", dict(kwargs), _FutureSink(fut))
        return fut

    def map(self, fn, *iterables, timeout=None, chunksize=1):
        futs = [self.submit(fn, *a) for a in zip(*iterables)]

        def gen():
            for f in futs:
                yield f.result()
        return gen()

    def shutdown(self, wait=True, *, cancel_futures=False):
        self._shutdown = True
        self._pool.close()
        if wait:
            self._pool.join()


def _sim_as_completed(fs, timeout=None):
    fs = list(fs)
    sims = [f for f in fs if isinstance(f, SimFuture)]
    if not sims or len(sims) != len(fs):
        for f in _REAL["cf.as_completed"](fs, timeout):
            yield f
        return
    pending = list(dict.fromkeys(fs))
    k = sims[0]._sim_kernel
    order = []
    for f in pending:
        f.add_done_callback(order.append)
    n = len(pending)
    yielded = 0
    while yielded < n:
        k.run_until(lambda: len(order) > yielded, "as_completed")
        while yielded < len(order):
            yield order[yielded]
            yielded += 1


def _sim_wait(fs, timeout=None, return_when=_cf.ALL_COMPLETED):
    fs = list(fs)
    if not fs or not all(isinstance(f, SimFuture) for f in fs):
        return _REAL["cf.wait"](fs, timeout, return_when)
    k = fs[0]._sim_kernel
    if return_when == _cf.ALL_COMPLETED:
        k.run_until(lambda: all(f.done() for f in fs), "wait(ALL_COMPLETED)")
    elif return_when == _cf.FIRST_COMPLETED:
        k.run_until(lambda: any(f.done() for f in fs), "wait(FIRST_COMPLETED)")
    else:
        k.run_until(lambda: all(f.done() for f in fs) or any(f.done() and f.exception(0) for f in fs), "wait")
    return _REAL["cf.wait"](fs, 0, return_when)


# ---- forked-worker wire protocol -------------------------------------------------------------------------
def _send(fd, blob):
    data = struct.pack("<Q", len(blob)) + blob
    view = memoryview(data)
    while view:
        n = os.write(fd, view)
        view = view[n:]


def _recv_exact(fd, n):
    buf = b""
    while len(buf) < n:
        part = os.read(fd, n - len(buf))
        if not part:
            return None
        buf += part
    return buf


def _recv(fd):
    head = _recv_exact(fd, 8)
    if head is None:
        return None
    (n,) = struct.unpack("<Q", head)
    return _recv_exact(fd, n)


def _child_loop(rfd, wfd):
    while True:
        data = _recv(rfd)
        if data is None:
            return
        try:
            func, items, star, kwds = pickle.loads(data)
            out = (True, _run_chunk(func, items, star, kwds))
        except Exception as e:
            out = (False, e)
        try:
            blob = bytes(ForkingPickler.dumps(out))
        except Exception as e:
            blob = bytes(ForkingPickler.dumps((False, RuntimeError("result not picklable: %r" % (e,)))))
        _send(wfd, blob)


# ---- facades ---------------------------------------------------------------------------------------------
class _FacadePool(_REAL["mpp.Pool"]):
    """multiprocessing.pool.Pool while no simulation is active, SimPool while one is.
    (A subclass, not a function: the real pool refers to its own class through the module global.)"""

    def __new__(cls, processes=None, initializer=None, initargs=(), maxtasksperchild=None, context=None):
        k = _ACTIVE[0]
        if k is None:
            return object.__new__(cls)
        return SimPool(k, processes, initializer, initargs, maxtasksperchild, context, flavour="process")


class _FacadeThreadPool(_REAL["mpp.ThreadPool"]):
    def __new__(cls, processes=None, initializer=None, initargs=()):
        k = _ACTIVE[0]
        if k is None:
            return object.__new__(cls)
        return SimPool(k, processes, initializer, initargs, flavour="thread")


def _facade_pool(processes=None, initializer=None, initargs=(), maxtasksperchild=None, context=None):
    """replacement of multiprocessing.Pool (originally a bound method of the default context)"""
    k = _ACTIVE[0]
    if k is None:
        return _REAL["mp.Pool"](processes, initializer, initargs, maxtasksperchild)
    return SimPool(k, processes, initializer, initargs, maxtasksperchild, context, flavour="process")


class _FacadePPE(_REAL["cf.ProcessPoolExecutor"]):
    def __new__(cls, max_workers=None, mp_context=None, initializer=None, initargs=(), **kw):
        k = _ACTIVE[0]
        if k is None:
            return object.__new__(cls)
        return SimExecutor(k, max_workers, "process", initializer, initargs)


class _FacadeTPE(_REAL["cf.ThreadPoolExecutor"]):
    def __new__(cls, max_workers=None, thread_name_prefix="", initializer=None, initargs=()):
        k = _ACTIVE[0]
        if k is None:
            return object.__new__(cls)
        return SimExecutor(k, max_workers, "thread", initializer, initargs)


def _counting_fork():
    k = _ACTIVE[0]
    if k is not None:
        k.uncontrolled += 1
    return _REAL["os.fork"]()


def _counting_thread_start(self):
    k = _ACTIVE[0]
    if k is not None:
        k.uncontrolled += 1
    return _REAL["Thread.start"](self)


_INSTALLED = [False]


def install():
    """replace every pool / executor entry point by a facade. Must run before `import aotools`
    so that `from multiprocessing import Pool` style imports are covered as well."""
    if _INSTALLED[0]:
        return
    _INSTALLED[0] = True
    _mp.Pool = _facade_pool
    _mpp.Pool = _FacadePool
    _mpp.ThreadPool = _FacadeThreadPool
    _cf.ProcessPoolExecutor = _FacadePPE
    _cf.ThreadPoolExecutor = _FacadeTPE
    import concurrent.futures.process as _cfp
    import concurrent.futures.thread as _cft
    _cfp.ProcessPoolExecutor = _FacadePPE
    _cft.ThreadPoolExecutor = _FacadeTPE
    _cf.as_completed = _sim_as_completed
    _cf.wait = _sim_wait
    os.fork = _counting_fork
    _threading.Thread.start = _counting_thread_start
