"""
Seams for the nondeterminism aotools can meet besides process scheduling (DESIGN.md section 2):
OS entropy, wall clock, the two global RNGs, scripted per-instance randomness.

Everything here is installed for the duration of one run (context manager) and
restored afterwards; values come from the plan, never from a PRNG or a real clock.
"""
import hashlib
import os
import sys
import random as _pyrandom
import time as _time

import numpy
import numpy.random.bit_generator as _bg

_REAL = {
    "randbits": _bg.randbits,
    "urandom": os.urandom,
    "getpid": os.getpid,
    "time": dict((n, getattr(_time, n)) for n in
                 ("time", "time_ns", "monotonic", "monotonic_ns", "perf_counter", "perf_counter_ns",
                  "process_time", "process_time_ns", "sleep") if hasattr(_time, n)),
}


_AOT = [None]


def _aotools_dir():
    if _AOT[0] is None:
        try:
            import aotools
            _AOT[0] = os.path.dirname(os.path.abspath(aotools.__file__)) + os.sep
        except Exception:
            _AOT[0] = "\0"
    return _AOT[0]


class SimEnv(object):
    """simulated entropy source + clock. Entropy is a counter hash of the run's entropy key: every
    request returns a different value, the same sequence in every replay. The clock is frozen unless a
    plan step advances it (so two unseeded calls can fall into the same tick, as on a fast machine)."""

    def __init__(self, key, t0=1.7e9):
        self.key = int(key)
        self.n_entropy = 0
        self.now = float(t0)
        self.advanced = 0.0
        self.clock_reads = 0
        self.sleeps = 0
        self.pid = 4242

    # ---- entropy
    def _bytes(self, n):
        out = b""
        while len(out) < n:
            self.n_entropy += 1
            out += hashlib.sha256(b"entropy:%d:%d" % (self.key, self.n_entropy)).digest()
        return out[:n]

    def randbits(self, k):
        if k <= 0:
            return 0
        nbytes = (k + 7) // 8
        return int.from_bytes(self._bytes(nbytes), "big") >> (nbytes * 8 - k)

    def urandom(self, n):
        return self._bytes(n)

    # ---- clock
    def jump(self, dt):
        self.now += float(dt)
        self.advanced += abs(float(dt))

    def _t(self):
        self.clock_reads += 1
        return self.now

    def install(self):
        """entropy is simulated for everybody (harmless); the clock, sleep and pid are simulated only for callers inside
        aotools code (whatever way they imported `time`): the standard library - multiprocessing polls with sleep and
        monotonic deadlines - keeps the real clock, so a tree that uses raw processes or queues cannot hang here"""
        import sys
        _bg.randbits = self.randbits
        os.urandom = self.urandom
        aot = _aotools_dir()
        real = _REAL["time"]
        env = self

        def scoped(name, fake):
            realf = real[name]

            def f(*a):
                try:
                    inside = sys._getframe(1).f_code.co_filename.startswith(aot)
                except Exception:
                    inside = False
                return fake(*a) if inside else realf(*a)
            f.__name__ = name
            return f

        def _sleep(s_):
            env.sleeps += 1
            env.jump(max(0.0, float(s_)))
        for n in ("time", "monotonic", "perf_counter", "process_time"):
            if n in real:
                setattr(_time, n, scoped(n, lambda: env._t()))
            if n + "_ns" in real:
                setattr(_time, n + "_ns", scoped(n + "_ns", lambda: int(env._t() * 1e9)))
        _time.sleep = scoped("sleep", _sleep)
        realpid = _REAL["getpid"]

        def getpid():
            try:
                inside = sys._getframe(1).f_code.co_filename.startswith(aot)
            except Exception:
                inside = False
            return env.pid if inside else realpid()
        os.getpid = getpid

    @staticmethod
    def uninstall():
        _bg.randbits = _REAL["randbits"]
        os.urandom = _REAL["urandom"]
        os.getpid = _REAL["getpid"]
        for n, f in _REAL["time"].items():
            setattr(_time, n, f)

    def __enter__(self):
        self.install()
        return self

    def __exit__(self, *exc):
        self.uninstall()
        return False


class Poison(object):
    """numpy.empty / empty_like return buffers pre-filled with a different large value per allocation, but only
    when the calling frame is aotools code (workspace arrays inside NumPy/SciPy are never touched). Legal:
    `empty` promises nothing about the contents."""

    def __init__(self):
        import numpy
        self.np = numpy
        self.real_empty = numpy.empty
        self.real_empty_like = numpy.empty_like
        self.count = 0
        self._on = False
        self._installed = False
        self.hits = 0

    def _from_aotools(self):
        f = sys._getframe(2)
        return f.f_code.co_filename.startswith(_aotools_dir())

    def _fill(self, a):
        self.count += 1
        self.hits += 1
        try:
            if a.dtype.kind in "fc":
                a[...] = 1.0e6 * (self.count + 1) + 0.5
            elif a.dtype.kind in "iu":
                a[...] = 1000 + self.count
        except Exception:
            pass
        return a

    def empty(self, *args, **kw):
        a = self.real_empty(*args, **kw)
        if self.on and self._from_aotools():
            self._fill(a)
        return a

    def empty_like(self, *args, **kw):
        a = self.real_empty_like(*args, **kw)
        if self.on and self._from_aotools():
            self._fill(a)
        return a

    # The wrappers are in place only while `on` is set (i.e. during the calls the plan poisons): a numba kernel that the tree
    # under test compiles for the first time resolves numpy's functions as globals, and cannot type a Python wrapper.
    @property
    def on(self):
        return self._on

    @on.setter
    def on(self, value):
        value = bool(value)
        if value and not self._installed:
            self.np.empty = self.empty
            self.np.empty_like = self.empty_like
            self._installed = True
        elif not value and self._installed:
            self.np.empty = self.real_empty
            self.np.empty_like = self.real_empty_like
            self._installed = False
        self._on = value

    def install(self):
        pass

    def uninstall(self):
        self.on = False



class AllocFault(object):
    """failing allocation: once armed, the n-th call of an allocating NumPy routine made from an aotools frame raises
    MemoryError (one shot). Calls made by NumPy itself or by anybody else are never touched."""
    NAMES = ("append", "concatenate", "vstack", "hstack", "zeros", "empty", "zeros_like", "empty_like", "roll", "copy", "array",
             "fft.fft2", "fft.ifft2", "fft.fftshift", "fft.ifftshift")

    @staticmethod
    def _owner(name):
        return (numpy.fft, name[4:]) if name.startswith("fft.") else (numpy, name)

    def _get(self, name):
        o, a = self._owner(name)
        return getattr(o, a)

    def _set(self, name, f):
        o, a = self._owner(name)
        setattr(o, a, f)

    def __init__(self):
        self.real = dict((n, self._get(n)) for n in self.NAMES)
        self.countdown = None
        self._installed = False
        self.fired = 0
        self.seen = 0

    def _wrap(self, name):
        real = self.real[name]
        fault = self

        def f(*a, **k):
            if fault.countdown is not None:
                try:
                    inside = sys._getframe(1).f_code.co_filename.startswith(_aotools_dir())
                except Exception:
                    inside = False
                if inside:
                    fault.seen += 1
                    if fault.countdown <= 0:
                        fault.countdown = None
                        fault.fired += 1
                        raise MemoryError("injected: Unable to allocate memory for an array (numpy.%s)" % name)
                    fault.countdown -= 1
            return real(*a, **k)
        f.__name__ = name.split(".")[-1]
        return f

    # The wrappers are in place only between arm() and disarm() (one library call): a numba kernel that the tree under test
    # compiles for the first time resolves numpy's functions as globals, and cannot type a Python wrapper.
    def arm(self, nth):
        self.countdown = int(nth)
        if not self._installed:
            self.real = dict((n, self._get(n)) for n in self.NAMES)       # whatever is there now (possibly Poison's wrappers)
            for n in self.NAMES:
                self._set(n, self._wrap(n))
            self._installed = True

    def disarm(self):
        self.countdown = None
        if self._installed:
            for n, f in self.real.items():
                self._set(n, f)
            self._installed = False

    def install(self):
        pass

    def uninstall(self):
        self.disarm()


# ---- ambient (global) RNG state -----------------------------------------------------------------------
def np_global_digest():
    st = numpy.random.get_state()
    h = hashlib.sha256()
    h.update(str(st[0]).encode())
    h.update(numpy.asarray(st[1]).tobytes())
    h.update(repr(tuple(st[2:])).encode())
    return h.hexdigest()[:16]


def py_global_digest():
    return hashlib.sha256(repr(_pyrandom.getstate()).encode()).hexdigest()[:16]


def ambient_digest():
    return np_global_digest() + py_global_digest()


def set_numba_threads(k):
    """numba's thread count is ambient process state the caller may change at any time; results must not depend on it.
    (NUMBA_NUM_THREADS=4 and the fork-safe workqueue layer are set by `check`.)"""
    try:
        import numba
        numba.set_num_threads(max(1, min(int(k), numba.config.NUMBA_NUM_THREADS)))
    except Exception:
        pass


def reset_ambient(seed, numba_threads=1):
    """both global RNGs, print options and numba threads are set from the plan at the start of a run"""
    set_numba_threads(numba_threads)
    numpy.random.seed(int(seed) % (2 ** 32))
    _pyrandom.seed(int(seed))
    numpy.set_printoptions(edgeitems=3, infstr='inf', linewidth=75, nanstr='nan', precision=8, suppress=False,
                           threshold=1000, formatter=None)


def apply_noise(op, env, res=None):
    """one 'noise' step: the environment changes underneath the screens. Returns a loggable token."""
    k = op["k"]
    if k == "np_seed":
        numpy.random.seed(int(op["v"]) % (2 ** 32))
    elif k == "np_draw":
        numpy.random.standard_normal(min(1000, int(op["v"])))
        numpy.random.randint(0, 10, size=2)
    elif k == "np_set_state":
        rs = numpy.random.RandomState(int(op["v"]) % (2 ** 32))
        rs.standard_normal(int(op.get("n", 3)))
        numpy.random.set_state(rs.get_state())
    elif k == "py_seed":
        _pyrandom.seed(int(op["v"]))
    elif k == "py_draw":
        _pyrandom.random()
    elif k == "clock":
        env.jump(float(op["v"]))
    elif k == "gc":
        import gc
        gc.collect()
    elif k == "printopts":
        numpy.set_printoptions(precision=int(op.get("p", 3)), threshold=int(op.get("t", 5)), edgeitems=int(op.get("e", 1)),
                               suppress=bool(op.get("s", False)))
    elif k == "numba_threads":
        set_numba_threads(int(op["v"]))
    elif k == "fork":
        # from here on the program runs in a forked child: same objects, another process id
        env.pid += 1 + int(op.get("v", 0)) % 7
    elif k == "np_default_rng":
        # somebody else uses the new-style API with the same integer seed
        numpy.random.default_rng(int(op["v"])).normal(size=int(op.get("n", 4)))
    else:
        raise ValueError("unknown noise op %r" % (k,))
    if res is not None:
        res.count("fault.noise." + k)
    return k


# ---- scripted per-instance randomness -------------------------------------------------------------------
class ScriptedGenerator(numpy.random.Generator):
    """A numpy Generator whose Gaussian draws are dictated by a script. `default_rng(g)` returns `g`
    itself when `g` is a Generator, so passing one as `random_seed=` / `seed=` puts the instance's whole
    random stream behind this seam.

    script: callable(call_index, size) -> ndarray or None (None = draw from the real underlying stream)
    """

    def __init__(self, script, seed=0):
        super().__init__(numpy.random.PCG64(seed))
        self._script = script
        self.calls = 0
        self.sizes = []

    def _draw(self, loc, scale, size):
        i = self.calls
        self.calls += 1
        self.sizes.append(size if size is None or isinstance(size, int) else tuple(size))
        out = self._script(i, size)
        if out is None:
            return None
        return loc + scale * numpy.asarray(out, dtype=float)

    def normal(self, loc=0.0, scale=1.0, size=None):
        out = self._draw(loc, scale, size)
        if out is None:
            return super().normal(loc, scale, size)
        return out

    def standard_normal(self, size=None, dtype=numpy.float64, out=None):
        r = self._draw(0.0, 1.0, size)
        if r is None:
            return super().standard_normal(size, dtype, out)
        return r.astype(dtype)


def vk_covariance(r, r0, L0):
    """von Karman phase covariance (Assemat & Wilson 2006, eq. 5), written independently of aotools, float64.
    B(r) = (L0/r0)^(5/3) * Gamma(11/6) / (2^(5/6) pi^(8/3)) * (24/5 Gamma(6/5))^(5/6) * x^(5/6) K_{5/6}(x), x = 2 pi r / L0"""
    from scipy.special import gamma, kv
    r = numpy.asarray(r, dtype=float)
    x = 2 * numpy.pi * r / L0
    c = (L0 / r0) ** (5. / 3) * gamma(11. / 6) / (2 ** (5. / 6) * numpy.pi ** (8. / 3)) * ((24. / 5) * gamma(6. / 5)) ** (5. / 6)
    with numpy.errstate(invalid="ignore", over="ignore"):
        core = numpy.where(x > 0, x ** (5. / 6) * kv(5. / 6, numpy.where(x > 0, x, 1.0)), 2 ** (-1. / 6) * gamma(5. / 6))
    return c * core
