"""
C20 - library calls are pure: arguments are never modified, no hidden state (DESIGN.md section 8).

World: a shared heap of arrays (several dtypes and layouts, overlapping views, write-protected ones), 1-3
simulated callers whose programs of public aotools calls draw their arguments from that heap and are
interleaved call by call. Injected environment faults: write protection, aliasing (the same array in two
slots / a frame that is a view of a stack), poisoned `numpy.empty` (uninitialised memory made adversarial
and deterministic), re-allocation of heap arrays (id() reuse), ambient RNG reseeds between calls.

Invariants / history checks:
  purity  : after every call and at every executed line of an aotools frame during it, every argument
            array is bit-identical to its snapshot (bytes, shape, strides, dtype); whole heap after the call
  repeat  : the same call issued again later in the history returns a bytewise equal result
  copy    : the same call on fresh copies of its arguments returns an equal result (stale caches keyed by identity)
  batch   : a stack call equals the per-item calls
"""
import os
import sys

from sim import core, seams, screens, registry, simpool

ID = "C20"
HISTORY_DEPENDENCE_IS_VIOLATION = True

RULE = ("Each evaluation is one program: 5-40 public aotools calls issued by 1-3 simulated callers (interleaving decided by the seed) whose array "
        "arguments are drawn from a shared heap of 12-20 arrays (float64/float32/int64/complex128; C, Fortran, strided views, frames that are views "
        "of a stack, write-protected), with repeats of earlier calls, heap re-allocation steps and ambient RNG reseeds in between; per call the "
        "plan may poison numpy.empty, and the caller may overwrite the returned arrays in place afterwards. distinct_nontrivial counts distinct tuples "
        "(function, parameter, array category, layout, dtype, write-protected, function that used this array last) over all array arguments passed, "
        "counted only when the array had already been used by an earlier call of the program.")

COMPONENTS = {
    "real": ["every registered public aotools callable (see coverage.registry)", "numpy / scipy / numba"],
    "stub": ["numpy.empty / numpy.empty_like when called from aotools frames -> buffers pre-filled with a per-allocation poison value (fault, per call)",
             "OS entropy and clock -> simulated", "NumPy global RNG pinned from the plan before every call"],
}

ASSUMPTIONS = [
    "an exception is a result: the same exception type on the repeated call counts as equal, and the arguments must still be untouched",
    "a read-only argument that makes a call raise is judged by re-running the call on a writable copy under the monitor: only a confirmed modification is a violation",
    "results of repeated calls are compared bytewise (NaN-aware by bit pattern); results on fresh copies and batch-vs-item with rtol 1e-9",
    "pre-emption/observation at line granularity inside aotools frames (sys.settrace); numba-compiled kernels are opaque",
    "functions that are random by contract (unseeded screen generators) are exempt from the repeat check; optimal_grouping is made comparable by pinning the global RNG",
]

AOT_DIR = [None]


def warm():
    m = screens.warm()
    import aotools
    AOT_DIR[0] = os.path.dirname(os.path.abspath(aotools.__file__)) + os.sep
    # resolve every entry once (import cost, numba compilation happens on first call)
    for e in registry.ENTRIES:
        e["fn"] = registry.resolve(e["name"].split("#")[0])
    return m


def sizes(tier):
    if tier == "thorough":
        return {"runs": 6000, "block": 50, "det": 64, "det_fresh": 8, "timeout": 6500, "order": 400}
    return {"runs": 1600, "block": 25, "det": 24, "det_fresh": 6, "timeout": 900, "order": 200}


# ----------------------------------------------------------------------------------------------
# plan generation
# ----------------------------------------------------------------------------------------------
# ">f8" / ">f4": non-native byte order (arrays read from FITS files)
DTYPES = {"img2d": ["float64", "float64", "float64", "float32", "int64", ">f8", "uint16", "uint8"], "img3d": ["float64", "float64", "float32", ">f4", "uint16", "int16", "uint8"], "img4d": ["float64"],
          "cplx2d": ["complex128", "complex128", "complex64"], "cplx3d": ["complex128"], "vec_inc": ["float64", "float64", ">f8"], "vec_pos": ["float64", "float64", "float32", ">f8"], "mask2d": ["float64", "int64"],
          "pos": ["float64"], "sep": ["float64"], "slopes3": ["float64"], "frames": ["float64", "float32"], "cov32": ["float32"], "r32": ["float32"]}


def gen_heap(rng, z):
    heap = []
    counts = {"img2d": 3, "img3d": 2, "img4d": 1, "cplx2d": 2, "cplx3d": 1, "vec_inc": 1, "vec_pos": 3, "mask2d": 2, "pos": 2, "sep": 1, "slopes3": 1, "frames": 1,
              "cov32": 1, "r32": 1}
    for cat in registry.CATS:
        for k in range(counts[cat]):
            layout = rng.weighted([("C", 6), ("F", 1.5), ("strided", 1.5)]) if cat in ("img2d", "img3d", "cplx2d", "cplx3d", "mask2d", "pos", "vec_pos") else "C"
            heap.append({"cat": cat, "dtype": rng.choice(DTYPES[cat]), "layout": layout, "ro": rng.chance(0.15), "fill": rng.randrange(10 ** 6)})
    # aliasing: one img2d is frame k of a stack, one img2d shares the buffer of another (overlapping views)
    stacks = [i for i, h in enumerate(heap) if h["cat"] == "img3d"]
    if rng.chance(0.7):
        s = rng.choice(stacks)
        heap.append({"cat": "img2d", "dtype": heap[s]["dtype"], "layout": "frame_of", "of": s, "k": rng.randrange(z["K"]), "ro": False, "fill": 0})
    return heap


def gen_call(rng, heap, z, by_cat, e=None):
    if e is None:
        e = rng.weighted([(x, x["weight"]) for x in registry.ENTRIES])
    a = {}
    for param, cats in e["arrays"]:
        cat = rng.choice(cats)
        if cat is None:
            continue
        a[param] = rng.choice(by_cat[cat])
    # aliasing fault: the same array in two slots when categories allow it
    params = [p for p, c in e["arrays"]]
    if len(params) >= 2 and rng.chance(0.25):
        p0, p1 = params[0], params[1]
        common = set(c for c in e["arrays"][0][1] if c) & set(c for c in e["arrays"][1][1] if c)
        if common and p0 in a:
            cat = heap[a[p0]]["cat"]
            if cat in common:
                a[p1] = a[p0]
    return {"f": e["name"], "a": a, "s": e["scalars"](rng, z), "poison": rng.chance(0.3), "amb": rng.randrange(2 ** 31),
            "scribble": rng.chance(0.35), "omit": rng.sub("omit").chance(0.3)}


def gen_plan(rng, tier, index=0):
    z = {"N": rng.choice([4, 6, 8] + ([10, 12, 16] if tier == "thorough" else [])), "M": rng.choice([6, 8, 11] + ([17, 30] if tier == "thorough" else [])),
         "K": rng.choice([2, 3] + ([5] if tier == "thorough" else []))}
    heap = gen_heap(rng.sub("heap"), z)
    if index % 2 == 0:
        # programs with a sweeping caller (below) hold every 2-D category in both sizes
        for cat in ("img2d", "cplx2d", "mask2d"):
            two = [h for h in heap if h["cat"] == cat and h["layout"] != "frame_of"][:2]
            for h, m in zip(two, (3, 1)):
                h["fill"] = h["fill"] - h["fill"] % 4 + m
        # ... and hold images and strength vectors both in native and in non-native byte order, write-protected (data mapped
        # read-only from FITS files next to data produced in memory): dispatch on the argument's type must not confuse the two
        for cat in ("img2d", "vec_pos"):
            two = [h for h in heap if h["cat"] == cat and h["layout"] != "frame_of"][:2]
            for h, dt in zip(two, ("float64", ">f8")):
                h.update({"dtype": dt, "ro": True, "layout": "C"})
    by_cat = {}
    for i, h in enumerate(heap):
        by_cat.setdefault(h["cat"], []).append(i)
    n_callers = rng.weighted([(1, 3), (2, 3), (3, 2)])
    progs = []
    for c in range(n_callers):
        r = rng.sub("caller", c)
        prog = []
        focus = r.choice(registry.ENTRIES) if r.chance(0.5) else None      # a caller that hammers one function
        for _ in range(r.randint(3, 16 if tier != "thorough" else 40)):
            x = r.random()
            if prog and x < 0.20:
                prog.append(dict(r.choice(prog)))                                 # repeat an earlier call of this caller
            elif prog and x < 0.30:
                # near-duplicate: same function, same arrays, scalars drawn again (caches keyed on too few parameters)
                st = dict(r.choice(prog))
                st["s"] = registry.BY_NAME[st["f"]]["scalars"](r, z)
                prog.append(st)
            elif focus is not None and x < 0.55:
                st = gen_call(r, heap, z, by_cat)
                tries = 0
                while st["f"] != focus["name"] and tries < 200:
                    st = gen_call(r, heap, z, by_cat)
                    tries += 1
                prog.append(st)
            else:
                prog.append(gen_call(r, heap, z, by_cat))
        progs.append(prog)
    if index % 2 == 0:
        # a sweeping caller (every second program): one function after the other - chosen by the run index, so that every
        # registered function is swept by the programs of the order stage - is called with the same scalars, defaults left out, on
        # every array it accepts for its first two array parameters (two image sizes, several dtypes and layouts, both byte orders). State that the
        # first call pins (a mutated default argument, a cache keyed on too little) shows when the order stage reverses it.
        r = rng.sub("sweep")
        prog = []
        # the order stage takes every `spacing`-th program: consecutive order-stage programs sweep consecutive functions
        spacing = max(1, sizes(tier)["runs"] // max(1, sizes(tier)["order"]))
        for j in range(3):
            e = registry.ENTRIES[(index // spacing + 31 * j) % len(registry.ENTRIES)]
            if not e["arrays"]:
                continue
            st0 = gen_call(r, heap, z, by_cat, e)
            # two draws of the scalar arguments (a default left out in one of them is enough), first array parameter swept with both
            variants = [st0["s"], e["scalars"](r.sub("again", j), z)]
            for p0, cats0 in e["arrays"][:2]:
                cands = [i for c in cats0 if c for i in by_cat.get(c, [])]
                for vi, sv in enumerate(variants if p0 == e["arrays"][0][0] else variants[:1]):
                    for i in cands[:5]:
                        st = dict(st0)
                        st["s"] = sv
                        st["a"] = dict(st0["a"])
                        st["a"][p0] = i
                        st.update({"omit": True, "poison": False, "scribble": False})
                        prog.append(st)
        if prog:
            progs.append(prog)
            n_callers += 1
    # the scheduler interleaves the callers call by call
    r = rng.sub("sched")
    steps, idx = [], [0] * n_callers
    while any(idx[c] < len(progs[c]) for c in range(n_callers)):
        c = r.choice([c for c in range(n_callers) if idx[c] < len(progs[c])])
        st = dict(progs[c][idx[c]])
        st["c"] = c
        steps.append(st)
        idx[c] += 1
        x = r.random()
        if x < 0.04:
            steps.append({"op": "realloc", "h": r.randrange(len(heap)), "fill": r.randrange(10 ** 6)})
        elif x < 0.09:
            # the owner rewrites the SAME array object with new data (same id(), shape, dtype)
            steps.append({"op": "refill", "h": r.randrange(len(heap)), "fill": r.randrange(10 ** 6)})
        elif x < 0.14:
            steps.append({"op": "noise", "noise": {"k": r.choice(["np_seed", "np_draw", "py_seed", "gc", "clock"]), "v": r.randint(1, 1000)}})
        elif x < 0.22 and steps:
            # another caller repeats something an earlier caller did (hidden-state probe across callers)
            prev = [s for s in steps if "f" in s]
            if prev:
                st2 = dict(r.choice(prev))
                st2["c"] = r.randrange(n_callers)
                steps.append(st2)
    # batch-vs-item probes
    for _ in range(rng.randint(0, 2)):
        be = rng.choice([e for e in registry.ENTRIES if e["batch"]])
        bcats = be["batch"]["cat"] if isinstance(be["batch"]["cat"], list) else [be["batch"]["cat"]]
        stacks = by_cat[rng.choice(bcats)]
        a = {}
        for param, cats in be["arrays"]:
            if param == be["batch"]["param"]:
                a[param] = rng.choice(stacks)
            else:
                cat = rng.choice([c for c in cats if c])
                a[param] = rng.choice(by_cat[cat])
        steps.insert(rng.randrange(len(steps) + 1), {"op": "batch", "f": be["name"], "a": a, "s": be["scalars"](rng, z), "amb": rng.randrange(2 ** 31),
                                                     "order": rng.choice(["stack_first", "items_first"])})
    from sim.worlds import c03
    pool = {"mode": rng.weighted([("inproc", 6), ("forked", 4)]), "sched": c03.gen_sched(rng.sub("pool"))}
    return {"z": z, "heap": heap, "entropy": rng.randrange(2 ** 62), "pool": pool, "steps": steps}


def sample_view(plan):
    return plan


# ----------------------------------------------------------------------------------------------
# heap construction (deterministic from the plan)
# ----------------------------------------------------------------------------------------------
def _content(cat, z, fill):
    import numpy
    rs = numpy.random.RandomState(fill % (2 ** 32))
    N, M, K = z["N"], z["M"], z["K"]
    if cat == "img2d":
        if fill % 4 == 3:
            N = N + 4            # programs hold images of two sizes
        a = rs.random_sample((N, N)) * 100
        a[rs.random_sample((N, N)) < 0.1] = 0.0
        a[rs.randint(N), rs.randint(N)] += 300
        u = rs.random_sample()
        if u < 0.05:
            a[...] = 0.0
        elif u < 0.1:
            a[...] = 7.0
        elif u < 0.16:
            a[rs.randint(N), rs.randint(N)] = numpy.nan          # a dead pixel flagged as NaN
        return a
    if cat == "img3d":
        a = rs.random_sample((K, N, N)) * 100
        a[rs.random_sample((K, N, N)) < 0.1] = 0.0
        for k in range(K):
            a[k, rs.randint(N), rs.randint(N)] += 300
        u = rs.random_sample()
        if u > 0.93:
            a[rs.randint(K), rs.randint(N), rs.randint(N)] = numpy.nan
        if u < 0.12:
            a[rs.randint(K)] = 0.0            # an un-illuminated frame
        elif u < 0.2:
            a[rs.randint(K)] = 7.0            # a flat frame
        return a
    if cat == "img4d":
        return rs.random_sample((2, K, N, N)) * 100
    if cat == "cplx2d":
        if fill % 4 == 3:
            N = N + 4
        return rs.normal(size=(N, N)) + 1j * rs.normal(size=(N, N))
    if cat == "cplx3d":
        return rs.normal(size=(K, N, N)) + 1j * rs.normal(size=(K, N, N))
    if cat == "vec_inc":
        return numpy.cumsum(rs.uniform(100, 2000, M))
    if cat == "vec_pos":
        return rs.uniform(0.1, 10, M)
    if cat == "mask2d":
        if fill % 4 == 3:
            N = N + 4
        a = (rs.random_sample((N, N)) < 0.7).astype(float)
        a[0, 0] = 1
        a[N // 2, N // 2] = 1
        return a
    if cat == "pos":
        return rs.uniform(-4, 4, (N, 2))
    if cat == "sep":
        return rs.uniform(-3, 3, (3, 4, 2))
    if cat == "slopes3":
        return rs.normal(size=(2, N, 16)) * 1e-6
    if cat == "frames":
        return rs.normal(size=(K, 2, N * N))
    if cat == "cov32":
        a = rs.normal(size=(2 * N, 2 * N))
        return a.dot(a.T)
    if cat == "r32":
        a = rs.uniform(0, 3, M)
        a[0] = 0.0
        a[M // 2] = 0.0
        return a
    raise ValueError(cat)


def build_array(spec, z, heap_arrays):
    import numpy
    if spec["layout"] == "frame_of":
        base = heap_arrays[spec["of"]]
        return base[spec["k"] % base.shape[0]]
    a = _content(spec["cat"], z, spec["fill"]).astype(spec["dtype"])
    if spec["layout"] == "F":
        a = numpy.asfortranarray(a)
    elif spec["layout"] == "strided":
        big = numpy.zeros(tuple(2 * s for s in a.shape), dtype=a.dtype)
        view = big[tuple(slice(None, None, 2) for _ in a.shape)]
        view[...] = a
        a = view
    if spec.get("ro"):
        a.setflags(write=False)
    return a


def ambient_state():
    """process-global state a pure library call has no business changing (it would be hidden state that alters what
    later, unrelated calls do): numpy's error handling and print options, the warnings filters, cwd, environment,
    the two global random generators"""
    import numpy
    import warnings
    po = dict(numpy.get_printoptions())
    po.pop("formatter", None)
    return {
        "numpy.geterr": repr(sorted(numpy.geterr().items())),
        "numpy.geterrcall": repr(numpy.geterrcall()),
        "numpy.printoptions": repr(sorted(po.items())),
        "warnings.filters": repr([(f[0], str(f[1]), getattr(f[2], "__name__", f[2]), str(f[3]), f[4]) for f in warnings.filters]),
        "os.getcwd": os.getcwd(),
        "os.environ": core.hbytes(repr(sorted(os.environ.items())).encode()),
        "numpy.random global state": seams.np_global_digest(),
        "python random state": seams.py_global_digest(),
    }


def snap(a):
    import numpy
    return (a.dtype.str, a.shape, a.strides, numpy.ascontiguousarray(a).tobytes())


def describe_change(before, a):
    now = snap(a)
    what = []
    if before[0] != now[0]:
        what.append("dtype")
    if before[1] != now[1]:
        what.append("shape")
    elif before[2] != now[2]:
        what.append("strides")
    if before[3] != now[3]:
        what.append("values")
    return "+".join(what) or "flags"


# ----------------------------------------------------------------------------------------------
# result canonicalisation
# ----------------------------------------------------------------------------------------------
def canon(x, out):
    """flatten a result into a list of ('a', dtype, shape, bytes) / ('s', repr) leaves"""
    import numpy
    if isinstance(x, numpy.ndarray):
        out.append(("a", x.dtype.str, x.shape, numpy.ascontiguousarray(x).tobytes(), x))
    elif isinstance(x, (list, tuple)):
        out.append(("s", "seq%d" % len(x)))
        for y in x:
            canon(y, out)
    elif isinstance(x, dict):
        out.append(("s", "dict%d" % len(x)))
        for k in sorted(x, key=repr):
            out.append(("s", repr(k)))
            canon(x[k], out)
    elif isinstance(x, (numpy.generic,)):
        canon(numpy.asarray(x), out)
    elif isinstance(x, float):
        canon(numpy.asarray(x), out)
    else:
        out.append(("s", repr(x)))
    return out


def result_key(r):
    kind, val = r
    if kind == "raised":
        return ("raised", val)
    return ("ok", tuple(l[:4] for l in val))


def results_close(r1, r2, rtol=1e-9, single=False):
    """equal up to rounding: rtol 1e-9 of the array's scale in double precision; 1e-4 when single precision is involved
    (a different but legal summation order changes float32 results at the 1e-7 level)"""
    import numpy
    if single:
        rtol = 1e-4
    if r1[0] != r2[0]:
        return False
    if r1[0] == "raised":
        return r1[1] == r2[1]
    a, b = r1[1], r2[1]
    if len(a) != len(b):
        return False
    for x, y in zip(a, b):
        if x[0] != y[0]:
            return False
        if x[0] == "s":
            if x[1] != y[1]:
                return False
            continue
        if x[1] != y[1] or x[2] != y[2]:
            return False
        if x[3] == y[3]:
            continue
        u, v = x[4], y[4]
        if u.dtype.kind not in "fc":
            return False
        if u.dtype.itemsize // (2 if u.dtype.kind == "c" else 1) < 8:
            rtol = max(rtol, 1e-4)
        scale = max(float(numpy.nanmax(numpy.abs(u))) if u.size else 0.0, 1e-300)
        with numpy.errstate(invalid="ignore"):
            ok = numpy.isclose(u, v, rtol=rtol, atol=rtol * scale, equal_nan=True)
        if not ok.all():
            return False
    return True


# ----------------------------------------------------------------------------------------------
# environment faults
# ----------------------------------------------------------------------------------------------
Poison = seams.Poison


class LineMonitor(object):
    """second caller observing the shared arrays at every pre-emption point: on every executed line of an aotools
    frame the argument arrays are compared with their snapshots (catches mutate-then-restore as well)"""

    def __init__(self, watched):
        self.watched = watched           # list of (label, array, snapshot)
        self.first = None
        self.lines = 0

    def _check(self, frame):
        for label, arr, s in self.watched:
            try:
                same = (arr.shape == s[1] and arr.dtype.str == s[0] and arr.tobytes() == s[3])
            except Exception:
                same = False
            if not same:
                self.first = (label, os.path.relpath(frame.f_code.co_filename, AOT_DIR[0]), frame.f_lineno)
                return True
        return False

    def _local(self, frame, event, arg):
        if event == "line" or event == "return":
            self.lines += 1
            if self.first is None:
                self._check(frame)
        return self._local

    def _global(self, frame, event, arg):
        if event == "call" and frame.f_code.co_filename.startswith(AOT_DIR[0]):
            return self._local
        return None

    def __enter__(self):
        sys.settrace(self._global)
        return self

    def __exit__(self, *exc):
        sys.settrace(None)
        return False


# ----------------------------------------------------------------------------------------------
# execution
# ----------------------------------------------------------------------------------------------
def execute(plan, keep_log=False):
    import numpy
    warm()
    res = core.Result()
    log = core.EventLog(keep_log)
    z = plan["z"]
    specs = [dict(h) for h in plan["heap"]]
    heap = []
    for sp in specs:
        heap.append(build_array(sp, z, heap))
    snaps = [snap(a) for a in heap]
    used = [False] * len(heap)
    last_user = [None] * len(heap)   # which function touched this array last (programs mixing functions on shared arrays)
    seen = {}            # repeat-call memory: key -> (result key, step)
    held = []            # result arrays of earlier calls (function results belong to the caller and must never change later)
    poison = Poison()
    poison.install()
    versions = [0] * len(heap)

    def restore(i):
        """put heap[i] back to its snapshot (so the rest of the program continues from the intended state)"""
        sp = specs[i]
        a = heap[i]
        try:
            if a.shape != snaps[i][1]:
                a.shape = snaps[i][1]
            w = a.flags.writeable
            if not w:
                a.setflags(write=True)
            a[...] = numpy.frombuffer(snaps[i][3], dtype=a.dtype).reshape(a.shape)
            if not w:
                a.setflags(write=False)
        except Exception:
            heap[i] = build_array(sp, z, heap)
        snaps[i] = snap(heap[i])

    def check_heap(si, fname, arg_idx, label_of):
        """whole heap must be bit-identical to its snapshots"""
        for i, a in enumerate(heap):
            if snap(a) != snaps[i]:
                what = describe_change(snaps[i], a)
                if i in arg_idx:
                    res.violate("modified", "C20:argument-modified:%s:%s" % (fname, label_of[i]),
                                "%s modified its argument '%s' (%s; heap array %d: %s %s %s%s)"
                                % (fname, label_of[i], what, i, specs[i]["cat"], specs[i]["dtype"], specs[i]["layout"], " read-only" if specs[i].get("ro") else ""), si)
                else:
                    owner = [j for j in arg_idx if specs[i].get("of") == j or specs[j].get("of") == i]
                    if owner:
                        res.violate("modified", "C20:argument-modified:%s:%s" % (fname, label_of[owner[0]]),
                                    "%s modified its argument '%s' (seen through the overlapping heap array %d; %s)" % (fname, label_of[owner[0]], i, what), si)
                    else:
                        res.violate("modified", "C20:unrelated-array-modified:%s" % fname,
                                    "%s changed heap array %d which was not passed to it (%s)" % (fname, i, what), si)
                restore(i)
        for i in range(len(heap)):
            snaps[i] = snap(heap[i])

    def do_call(e, A, S, amb, use_poison, monitor_labels, omit=False):
        """one call of the real function: ambient RNG pinned, optional poison, line monitor on the argument arrays;
        omit: arguments that only say 'use the default' are left out, so that the function's own default objects are used"""
        numpy.random.seed(amb)
        fn = registry.omit_defaults(e["fn"]) if omit else e["fn"]
        poison.on = bool(use_poison)
        mon = LineMonitor(monitor_labels)
        try:
            with mon:
                try:
                    out = ("ok", canon(e["call"](fn, A, S), []))
                except registry.ArgumentContainerModified as ex:
                    out = ("raised", "ArgumentContainerModified:" + str(ex))
                    res.violate("modified", "C20:argument-modified:%s:%s(list)" % (e["name"].split(".")[-1], ex),
                                "%s changed the argument '%s' it was given (a list whose elements were replaced, or an array / dict of "
                                "arrays built by the caller just before the call)" % (e["name"].split(".")[-1], ex), -1)
                except registry.HiddenStateDetected as ex:
                    out = ("raised", "HiddenStateDetected")
                    res.violate("hidden-state", "C20:repeated-call-differs:%s:on-the-same-object" % e["name"].split(".")[-1],
                                "%s(%s): %s" % (e["name"].split(".")[-1], S, ex), -1)
                except Exception as ex:
                    out = ("raised", type(ex).__name__ + (":read-only" if "read-only" in str(ex) else ""))
        finally:
            poison.on = False
        return out, mon

    def copies(A):
        out = {}
        memo = {}
        for k, a in A.items():
            if id(a) not in memo:
                memo[id(a)] = numpy.array(a, copy=True, order="K")
            out[k] = memo[id(a)]
        return out

    # every pool the library creates (CovarianceMatrix with threads > 1) is a simulated one, for the whole program
    kern = simpool.Kernel(res, None)
    kern.__enter__()
    kern.configure((plan.get("pool") or {}).get("sched"), (plan.get("pool") or {}).get("mode", "inproc"))
    try:
        _run_program(plan, res, log, z, specs, heap, snaps, used, last_user, seen, poison, versions, restore, check_heap, do_call, copies, held)
    finally:
        kern.__exit__(None, None, None)
    poison.uninstall()
    res.digest = log.digest()
    res.sched_digest = log.full_digest()
    if keep_log:
        res.events = log.events
    return res


def _run_program(plan, res, log, z, specs, heap, snaps, used, last_user, seen, poison, versions, restore, check_heap, do_call, copies, held):
    import numpy
    with seams.SimEnv(plan["entropy"]) as env:
        seams.reset_ambient(1)
        for si, st in enumerate(plan["steps"]):
            res.steps += 1
            op = st.get("op", "call")
            if op == "noise":
                seams.apply_noise(st["noise"], env, res)
                log.add(si, "noise", st["noise"]["k"])
                continue
            if op == "realloc":
                i = st["h"] % len(heap)
                if specs[i]["layout"] == "frame_of" or any(s.get("of") == i for s in specs):
                    log.add(si, "realloc-skipped", i)
                    continue
                specs[i] = dict(specs[i], fill=st["fill"])
                heap[i] = None                       # free first: the new array may land on the same address / id()
                heap[i] = build_array(specs[i], z, heap)
                snaps[i] = snap(heap[i])
                versions[i] += 1
                res.count("fault.heap_array_reallocated")
                log.add(si, "realloc", i)
                continue
            if op == "refill":
                i = st["h"] % len(heap)
                if specs[i]["layout"] == "frame_of":
                    log.add(si, "refill-skipped", i)
                    continue
                a = heap[i]
                new = _content(specs[i]["cat"], z, st["fill"]).astype(a.dtype)
                w = a.flags.writeable
                try:
                    if not w:
                        a.setflags(write=True)
                    a[...] = new
                    if not w:
                        a.setflags(write=False)
                except Exception:
                    log.add(si, "refill-failed", i)
                    continue
                specs[i] = dict(specs[i], fill=st["fill"])
                for j in range(len(heap)):
                    snaps[j] = snap(heap[j])
                    if j == i or specs[j].get("of") == i:
                        versions[j] += 1
                res.count("fault.heap_array_refilled_in_place")
                log.add(si, "refill", i)
                continue
            e = registry.BY_NAME.get(st["f"])
            if e is None:
                log.add(si, "unknown-function", st["f"])
                continue
            fname = e["name"].split(".")[-1]
            A = dict((p, heap[i % len(heap)]) for p, i in st["a"].items())
            idx = dict((p, i % len(heap)) for p, i in st["a"].items())
            label_of = {}
            for p, i in idx.items():
                label_of.setdefault(i, p)
            S = st["s"]
            if op == "batch":
                run_batch(res, log, si, st, e, fname, A, S, heap, specs, do_call, check_heap, idx, label_of)
                continue
            # ---- an ordinary call by caller st["c"]
            res.count("op.call")
            res.count("called." + fname)
            for p, i in idx.items():
                sp = specs[i]
                if used[i]:
                    res.sig("arg", fname, p, sp["cat"], sp["layout"], sp["dtype"], bool(sp.get("ro")), last_user[i])
                if sp.get("ro"):
                    res.count("fault.write_protected_argument")
                if sp["layout"] in ("strided", "F", "frame_of"):
                    res.count("fault.layout_%s" % sp["layout"])
            if len(set(idx.values())) < len(idx):
                res.count("fault.same_array_in_two_slots")
            if st.get("poison"):
                res.count("fault.poisoned_empty_armed")
            if st.get("omit"):
                res.count("op.call_with_defaults_left_out")
            watched = [(label_of[i], heap[i], snaps[i]) for i in sorted(set(idx.values()))]
            hits0 = poison.hits
            numpy.random.seed(st["amb"])
            amb0 = ambient_state()
            r1, mon = do_call(e, A, S, st["amb"], st.get("poison"), watched, st.get("omit"))
            amb1 = ambient_state()
            for key in amb0:
                if amb0[key] != amb1[key]:
                    if key == "numpy.random global state" and (e["random"] or "global RNG" in (e.get("note") or "")):
                        continue        # documented: optimal_grouping draws its restarts from the global generator
                    res.violate("hidden-state", "C20:process-global-state-changed:%s:%s" % (fname, key),
                                "%s(%s) changed %s (%s -> %s): process-wide state that alters what later, unrelated calls do"
                                % (fname, S, key, str(amb0[key])[:80], str(amb1[key])[:80]), si)
                    # put it back so that the rest of the program runs in the intended environment
                    if key == "numpy.geterr":
                        numpy.seterr(**dict(eval(amb0[key])))
            res.count("oracle.ambient_state_compared")
            if poison.hits > hits0:
                res.count("fault.poisoned_empty_fired", poison.hits - hits0)
            res.count("monitor.lines_observed", mon.lines)
            log.add(si, "call", st.get("c", 0), st["f"], sorted(idx.items()), result_digest(r1))
            if not e["random"]:
                res.step_results[str(st.get("k", si))] = result_digest(r1)
            changed_now = [i for i in sorted(set(idx.values())) if snap(heap[i]) != snaps[i]]
            if mon.first is not None and not changed_now:
                lab, fn_, ln = mon.first
                res.violate("modified", "C20:argument-modified-temporarily:%s:%s" % (fname, lab),
                            "%s changed its argument '%s' during the call (first seen at %s:%d) and restored it before returning" % (fname, lab, fn_, ln), si)
            check_heap(si, fname, set(idx.values()), label_of)
            for i in idx.values():
                used[i] = True
                last_user[i] = fname
            # ---- copy-call: fresh copies of the arguments (new identities, writable)
            C = copies(A)
            csn = dict((p, snap(a)) for p, a in C.items())
            r2, _ = do_call(e, C, S, st["amb"], st.get("poison"), [], st.get("omit"))
            ro_raise = r1[0] == "raised" and r1[1].endswith(":read-only")
            for p, a in C.items():
                if snap(a) != csn[p]:
                    if ro_raise or True:
                        res.violate("modified", "C20:argument-modified:%s:%s" % (fname, p),
                                    "%s modified (a writable copy of) its argument '%s' (%s)%s"
                                    % (fname, p, describe_change(csn[p], a), "; the write-protected original made the call raise" if ro_raise else ""), si)
            if ro_raise:
                res.count("probe.readonly_raise_confirmed_on_copy")
            elif not e["random"] and not results_close(r1, r2, single=any(a.dtype.itemsize // (2 if a.dtype.kind == "c" else 1) < 8 for a in A.values())):
                res.violate("hidden-state", "C20:result-differs-on-fresh-copies:%s" % fname,
                            "%s(%s) returns a different result on fresh copies of the same arguments than on the shared heap arrays "
                            "(state keyed by array identity, or dependence on uninitialised memory)" % (fname, S), si)
            # ---- repeat-call memory
            if not e["random"]:
                key = (st["f"], tuple(sorted((p, i, versions[i]) for p, i in idx.items())), repr(sorted(S.items())), st["amb"], bool(st.get("omit")))
                rk = result_key(r1)
                if key in seen:
                    res.count("probe.repeated_call_compared")
                    if seen[key][0] != rk:
                        res.violate("hidden-state", "C20:repeated-call-differs:%s" % fname,
                                    "%s(%s) at step %d returns something else than the same call on the same arrays at step %d "
                                    "(poisoned uninitialised memory: %s)" % (fname, S, si, seen[key][1], bool(st.get("poison"))), si)
                else:
                    seen[key] = (rk, si)
            # ---- results handed out by earlier calls must still be what they were (the library must not keep and reuse them)
            for hk in list(held):
                s0, n0, arr0, b0 = hk
                try:
                    same = arr0.tobytes() == b0
                except Exception:
                    same = True
                if not same:
                    res.violate("hidden-state", "C20:returned-array-changed-by-a-later-call:%s" % n0,
                                "an array returned by %s at step %d was modified while %s ran at step %d: the library kept and reused it"
                                % (n0, s0, fname, si), si)
                    held.remove(hk)
            if r1[0] == "ok" and not st.get("scribble") and not e["random"] and "PhaseScreen" not in fname:
                for leaf in r1[1]:
                    if leaf[0] == "a" and leaf[4].ndim > 0 and leaf[4].size <= 4096 and len(held) < 40 \
                            and not any(numpy.may_share_memory(leaf[4], hp) for hp in heap):
                        held.append((si, fname, leaf[4], leaf[4].tobytes()))
            # ---- the result belongs to the caller, who may overwrite it in place (never when it aliases an argument)
            if st.get("scribble") and r1[0] == "ok":
                for leaf in r1[1]:
                    if leaf[0] != "a":
                        continue
                    arr = leaf[4]
                    try:
                        if arr.ndim == 0 or not arr.flags.writeable or arr.dtype.kind not in "fciu":
                            continue
                        if any(numpy.may_share_memory(arr, hp) for hp in heap):
                            res.count("probe.result_aliases_an_argument")
                            continue
                        arr[...] = 777
                        res.count("fault.caller_overwrote_result_in_place")
                    except Exception:
                        pass
                check_heap(si, fname, set(idx.values()), label_of)
        res.sim_time = env.advanced


def result_digest(r):
    if r[0] == "raised":
        return "raised:" + r[1]
    h = core.hashlib.sha256()
    for l in r[1]:
        h.update(repr(l[:3]).encode())
        if l[0] == "a":
            h.update(l[3])
    return h.hexdigest()[:16]


def run_batch(res, log, si, st, e, fname, A, S, heap, specs, do_call, check_heap, idx, label_of):
    """stack call vs per-item calls (separate calls, plan-decided order)"""
    import numpy
    b = e["batch"]
    stack = A[b["param"]]
    if stack.ndim < 2:
        return
    res.count("op.batch_check")
    res.count("op.batch_check.%dd" % stack.ndim)
    items = []

    def call_items():
        for k in range(stack.shape[0]):
            Ak = dict(A)
            Ak[b["param"]] = stack[k]
            r, _ = do_call(e, Ak, S, st["amb"], False, [], st.get("omit"))
            check_heap(si, fname, set(idx.values()), label_of)        # flags a modification and restores the heap
            items.append(r)

    def call_stack():
        r = do_call(e, A, S, st["amb"], False, [], st.get("omit"))[0]
        check_heap(si, fname, set(idx.values()), label_of)
        return r

    if st.get("order") == "items_first":
        call_items()
        rs = call_stack()
    else:
        rs = call_stack()
        call_items()
    check_heap(si, fname, set(idx.values()), label_of)
    log.add(si, "batch", st["f"], result_digest(rs), [result_digest(r) for r in items])
    if rs[0] != "ok" or any(r[0] != "ok" for r in items):
        # exceptions: the stack call and every item call must agree on raising
        kinds = set([rs[0]] + [r[0] for r in items])
        if len(kinds) > 1:
            res.inconclusive.append("batch %s: stack and item calls disagree on raising (%s)" % (fname, sorted(kinds)))
        return
    tag = b["tag"](S) if "tag" in b else ""
    for k, r in enumerate(items):
        full = rs[1]
        try:
            # rebuild python values from canon leaves is not needed: compare via the entry's item extractor on raw arrays
            sv = _uncanon(full)
            iv = _uncanon(r[1])
            want = b["item"](sv, k)
            got = b["item_res"](iv) if "item_res" in b else iv
            same = results_close(("ok", canon(want, [])), ("ok", canon(got, [])), single=stack.dtype.itemsize // (2 if stack.dtype.kind == "c" else 1) < 8)
        except Exception as ex:
            res.inconclusive.append("batch %s: cannot compare (%s)" % (fname, type(ex).__name__))
            return
        if not same:
            res.violate("batch", "C20:batch-item-mismatch:%s%s" % (fname, (":" + tag) if tag else ""),
                        "%s(%s): item %d of the stack call differs from the single-item call on that frame" % (fname, S, k), si)
            return


def _uncanon(leaves):
    """inverse of canon for the shapes produced by the registered functions (arrays and nested sequences)"""
    it = iter(leaves)

    def rd():
        l = next(it)
        if l[0] == "a":
            return l[4]
        if l[1].startswith("seq"):
            return [rd() for _ in range(int(l[1][3:]))]
        return l[1]
    return rd()


def order_variants(plan):
    """the program's calls (no re-allocation / refill / noise / batch steps, so every call sees the same inputs) in the
    original order and in reverse order; a call's result must not depend on which calls ran before it"""
    import copy
    calls = []
    for i, st in enumerate(plan["steps"]):
        if "f" in st and st.get("op", "call") == "call":
            c = dict(st)
            c["k"] = i
            calls.append(c)
    if len(calls) < 2:
        return None
    a = copy.deepcopy(plan)
    a["steps"] = calls
    b = copy.deepcopy(plan)
    b["steps"] = list(reversed(copy.deepcopy(calls)))
    return [a, b]


def order_ops(variants):
    return [st["k"] for st in variants[0]["steps"]]


def order_drop(variants, drop):
    import copy
    drop = set(drop)
    out = []
    for v in variants:
        c = copy.deepcopy(v)
        c["steps"] = [st for st in c["steps"] if st["k"] not in drop]
        if len(c["steps"]) < 1:
            return None
        out.append(c)
    return out


def extra_stage(tier, base_seed, farm):
    rep = farm.call(_coverage_job, None, timeout=300)
    return {"coverage": {"registry": rep}}


def _coverage_job(_):
    warm()
    return registry.coverage_report()


def simplify(plan):
    import copy
    for i, st in enumerate(plan["steps"]):
        if st.get("poison"):
            c = copy.deepcopy(plan)
            c["steps"][i]["poison"] = False
            yield c
    for i, h in enumerate(plan["heap"]):
        if h.get("ro"):
            c = copy.deepcopy(plan)
            c["heap"][i]["ro"] = False
            yield c
        if h["layout"] in ("F", "strided"):
            c = copy.deepcopy(plan)
            c["heap"][i]["layout"] = "C"
            yield c
