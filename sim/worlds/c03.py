"""
C03 - covariance construction is independent of process count and scheduling (DESIGN.md section 4).

World: 1..3 CovarianceMatrix objects, a history of build / reconstructor / read / re-create
operations, every pool the build creates is a SimPool whose schedule comes from the plan.
Oracle: every build is bit-identical to the single-process reference of its configuration and to
every earlier build of the same object; nothing is relaxed under scheduling faults.
"""
import hashlib
import json

from sim import core, simpool, seams

ID = "C03"

RULE = ("Each evaluation is one seeded history (3-10 ops: build with threads 1..8 toggled, reconstructor, attribute "
        "reads, re-creation) on 1-3 CovarianceMatrix objects with random sensor/layer configurations; every pool.map "
        "the build issues runs on the discrete-event SimPool under a plan-given schedule (per-item durations, worker "
        "start latencies, slow/stalled workers, tie-breaks among idle workers and among simultaneous events, forced "
        "chunking). distinct_nontrivial counts distinct tuples (kind, worker count, chunk sizes, completion "
        "permutation) over all simulated map/imap/apply batches whose completion order is NOT the submission order, "
        "plus distinct normalised build histories (sequence of thread counts per object) that toggle between "
        "single-process and multi-process mode at least once.")

# a run whose result depends on which unrelated runs were executed earlier in the same process is hidden state
# carried between calls - covered by this property's statement
HISTORY_DEPENDENCE_IS_VIOLATION = True

COMPONENTS = {
    "real": ["aotools.turbulence.slopecovariance (CovarianceMatrix, wfs_covariance, mirror, reconstructor)", "numpy", "scipy.special",
             "pickle / multiprocessing.reduction.ForkingPickler across the simulated process boundary",
             "real forked worker processes in 'forked' lock-step mode",
             "real multiprocessing.Pool in the conformance stage (schedule not controlled, not the deciding step)"],
    "stub": ["multiprocessing.Pool / multiprocessing.pool.Pool / ThreadPool / concurrent.futures executors -> SimPool (discrete-event)",
             "worker timing, start order, completion order, chunking -> plan-decided"],
}

ASSUMPTIONS = [
    "SimPool models the documented contract of CPython 3.12 multiprocessing.Pool with the fork start method (map ordered, "
    "imap_unordered/callbacks in completion order, default chunking divmod(len, 4*n), arguments/results/callable cross a pickle boundary)",
    "workers compute one at a time (lock-step); data races between simultaneously computing workers on shared memory are not explored",
    "worker death is not injected: a real Pool.map hangs forever when a worker dies, so the property promises nothing there",
    "bit-identity is judged on the bytes of the returned float32 matrix",
]

_aotools = [None]


def warm():
    simpool.install()
    if _aotools[0] is None:
        import aotools  # noqa: F401  (import after the facades are installed)
        from aotools.turbulence import slopecovariance
        _aotools[0] = slopecovariance
    return _aotools[0]


def sizes(tier):
    if tier == "thorough":
        return {"runs": 60000, "block": 100, "det": 64, "det_fresh": 8, "timeout": 6500, "conformance": 16, "order": 2000}
    return {"runs": 2400, "block": 25, "det": 24, "det_fresh": 6, "timeout": 900, "conformance": 2, "order": 150}


# ----------------------------------------------------------------------------------------------
# plan generation (the only place that consumes the PRNG)
# ----------------------------------------------------------------------------------------------
def gen_config(rng, big=False):
    many = rng.chance(0.03)          # a large asterism (more than ten sensors) of tiny sensors
    n_wfs = rng.choice([11, 12, 13]) if many else rng.weighted([(1, 1), (2, 4), (3, 4), (4, 2)] + ([(5, 2), (6, 1)] if big else []))
    tel = round(rng.uniform(1.0, 10.0), 3)
    share_mask = rng.chance(0.3)
    base_nx = 2 if many else rng.randint(2, 7 if big else 5)
    masks, diams = [], []
    for w in range(n_wfs):
        nx = base_nx if (many or share_mask or rng.chance(0.6)) else rng.randint(2, 5)
        ny = nx if (many or rng.chance(0.8)) else rng.randint(2, 5)
        if share_mask and masks:
            m = [row[:] for row in masks[0]]
        else:
            p = rng.choice([0.4, 0.6, 0.8, 1.0])
            m = [[1 if rng.random() < p else 0 for _ in range(nx)] for _ in range(ny)]
            if not any(any(r) for r in m) and not (n_wfs >= 2 and w > 0 and rng.chance(0.5)):
                m[rng.randrange(ny)][rng.randrange(nx)] = 1          # (now and then a sensor without any active sub-aperture stays)
        masks.append(m)
        diams.append(round(tel / len(m[0]), 6) if rng.chance(0.7) else round(rng.uniform(0.1, 1.5), 4))
    n_layers = rng.weighted([(1, 2), (2, 3), (3, 3)] + ([(4, 2), (6, 1)] if big else []))
    alts = sorted(round(rng.choice([0.0, rng.uniform(0, 20000)]), 2) for _ in range(n_layers))
    top = max(alts) if alts else 0.0
    gs_alt = [0.0 if rng.chance(0.5) else round(rng.uniform(max(25000.0, 1.3 * top), 100000.0), 1) for _ in range(n_wfs)]
    gs_pos = [[0.0, 0.0] if rng.chance(0.25) else [round(rng.uniform(-60, 60), 3), round(rng.uniform(-60, 60), 3)]
              for _ in range(n_wfs)]
    wl = [rng.choice([500e-9, 589e-9, 1.65e-6, round(rng.uniform(4e-7, 2.2e-6), 10)]) for _ in range(n_wfs)]
    return {
        "n_wfs": n_wfs, "masks": masks, "tel": tel, "diams": diams, "gs_alt": gs_alt, "gs_pos": gs_pos, "wl": wl,
        "n_layers": n_layers, "alts": alts,
        "r0s": [round(rng.logu(0.05, 2.0), 5) for _ in range(n_layers)],
        "L0s": [round(rng.logu(5.0, 100.0), 4) for _ in range(n_layers)],
        "arrays": rng.chance(0.5),
        "mask_dtype": rng.choice(["int", "float", "bool"]),
        "readonly": rng.chance(0.2),          # the caller's arrays are write-protected
        # the caller's precision, per array (mixed precision is common: profile from a float32 file, geometry in float64)
        "arr_dtype": dict((k, rng.weighted([("float64", 5), ("float32", 2)])) for k in ("diams", "gs_alt", "gs_pos", "wl", "alts", "r0s", "L0s")),
        "extra_layers": rng.weighted([(0, 4), (1, 1), (2, 1)]),           # profile arrays longer than n_layers (prefix is used)
        "extra_gs": rng.weighted([(0, 4), (2, 1)]),                       # more guide-star positions than sensors (as the shipped tests do)
        "np_scalars": rng.chance(0.3),        # n_wfs / n_layers / threads arrive as numpy integers
    }


def gen_sched(rng, faults=False):
    """one schedule: everything the simulated OS decides for one build (faults: also inject a failing task; only the C03
    world does that - its oracle knows that a build may then legitimately raise)"""
    style = rng.weighted([("uniform", 2), ("jitter", 4), ("heavy", 3), ("reverse", 2), ("ties", 2)])
    n = rng.randint(4, 24)
    if style == "uniform":
        dur = [1.0]
    elif style == "jitter":
        dur = [round(rng.uniform(0.5, 1.5), 4) for _ in range(n)]
    elif style == "heavy":
        dur = [round(rng.logu(0.01, 100.0), 4) for _ in range(n)]
    elif style == "reverse":
        dur = [float(n - i) * 3.0 for i in range(n)]      # later-submitted tasks finish first
    else:
        dur = [float(rng.choice([1, 1, 2])) for _ in range(n)]
    sched = {"style": style, "dur": dur,
             "lat": [0.0] if rng.chance(0.5) else [round(rng.choice([0.0, rng.uniform(0, 5)]), 3) for _ in range(8)],
             "slow": {}, "stall": [],
             "tie": [0] if rng.chance(0.3) else [rng.randrange(8) for _ in range(rng.randint(2, 16))],
             "chunk": rng.weighted([("default", 5), ("one", 2), ("single", 1)]),
             # thread pools only: how many aotools lines a task body runs before the next body in flight gets the baton
             "tslice": [rng.choice([1, 2, 3, 5, 8, 13, 40, 200]) for _ in range(rng.randint(1, 12))],
             # bounded waits (get / next with a timeout) on a result that is not there yet: time out (1) or arrive just in time (0)
             "tmo": [rng.choice([0, 1, 1]) for _ in range(rng.randint(1, 6))],
             # failing allocation inside a worker: the n-th task of the build raises MemoryError instead of returning
             "fail": ([rng.randrange(12)] if (faults and rng.chance(0.06)) else []),
             "advance": rng.weighted([(0, 6), (1, 1), (3, 1), (50, 1)])}
    if rng.chance(0.35):
        for _ in range(rng.randint(1, 2)):
            sched["slow"][str(rng.randrange(8))] = rng.choice([10, 100, 1000])
    if rng.chance(0.3):
        for _ in range(rng.randint(1, 3)):
            sched["stall"].append([rng.randrange(8), rng.randint(1, 3), round(rng.uniform(1, 200), 2)])
    return sched


def gen_plan(rng, tier, index=0):
    n_obj = rng.weighted([(1, 5), (2, 3), (3, 1)])
    big = tier == "thorough" and rng.chance(0.2)
    objs = [gen_config(rng.sub("cfg", i), big) for i in range(n_obj)]
    if n_obj >= 2 and rng.chance(0.4):
        # object 1 is object 0 with exactly one ingredient changed (nothing that depends on it may be shared between objects)
        v = json.loads(json.dumps(objs[0]))
        rv = rng.sub("variant")
        key = rv.choice(["r0s", "L0s", "wl", "gs_pos", "alts", "diams", "gs_alt"])
        if key == "gs_pos":
            v[key] = [[round(x + 3.0, 3), round(y - 2.0, 3)] for x, y in v[key]]
        elif key == "gs_alt":
            v[key] = [0.0 if a else 80000.0 for a in v[key]]
        elif key == "alts":
            v[key] = [round(a * 0.5 + 100.0, 2) for a in v[key]]
        else:
            f = rv.choice([0.5, 2.0, 1.25])
            v[key] = [round(x * f, 10) for x in v[key]]
        objs[1] = v
    r = rng.sub("hist")
    forked_run = r.chance(0.08)
    steps = []
    n_steps = r.randint(3, 24 if big else 10)
    for s in range(n_steps):
        op = r.weighted([("build", 7), ("recon", 1.5), ("read", 1), ("new", 1), ("reconfig", 1), ("clone", 0.7), ("bad_build", 0.7)])
        o = r.randrange(n_obj)
        if op == "build":
            k = r.weighted([(1, 3), (2, 3), (3, 2), (4, 2), (5, 1), (6, 1), (8, 1)])
            steps.append({"op": "build", "obj": o, "threads": k, "sched": gen_sched(r.sub("sched", s), faults=True),
                          "mode": "forked" if (forked_run and k > 1) else "inproc"})
        elif op == "recon":
            steps.append({"op": "recon", "obj": o, "cond": r.choice([0.0, 0.0, 1e-3, 0.05, None, None])})      # None: call without the argument
        elif op == "read":
            steps.append({"op": "read", "obj": o})
        elif op == "bad_build":
            # a build that is refused (zero processes) - and the retry afterwards must be right
            steps.append({"op": "bad_build", "obj": o, "threads": r.choice([0, -1])})
            steps.append({"op": "build", "obj": o, "threads": r.choice([1, 2, 3]), "sched": gen_sched(r.sub("sched", s, "bb")), "mode": "inproc"})
        elif op == "clone":
            steps.append({"op": "clone", "obj": o, "how": r.choice(["deepcopy", "pickle"])})
        elif op == "reconfig":
            # the user changes one ingredient on the live object (a parameter scan) and builds again
            key = r.choice(["gs_pos", "alts", "gs_alt", "r0s", "L0s", "wl"])
            steps.append({"op": "reconfig", "obj": o, "key": key, "f": r.choice([0.5, 1.5, 2.0]), "shift": round(r.uniform(-5, 5), 2)})
            steps.append({"op": "build", "obj": o, "threads": r.choice([1, 2, 3, 4]), "sched": gen_sched(r.sub("sched", s, "rc")), "mode": "inproc"})
        else:
            steps.append({"op": "new", "obj": o, "threads": r.choice([1, 2, 4])})
    # every history contains at least one multi-process build
    if not any(s["op"] == "build" and s["threads"] > 1 for s in steps):
        steps.append({"op": "build", "obj": 0, "threads": r.choice([2, 3, 4]), "sched": gen_sched(r.sub("sched", "x")),
                      "mode": "inproc"})
    return {"objects": objs, "steps": steps}


def sample_view(plan):
    return plan


# ----------------------------------------------------------------------------------------------
# execution (no PRNG, no clock)
# ----------------------------------------------------------------------------------------------
def make_object(sc, cfg, threads):
    import numpy
    masks = [numpy.array(m, dtype=cfg.get("mask_dtype", "int")) for m in cfg["masks"]]
    ro = bool(cfg.get("readonly"))

    dts = cfg.get("arr_dtype") or {}

    def conv(x, key=None):
        if not cfg.get("arrays"):
            return list(x)
        a = numpy.array(x, dtype=(dts.get(key, "float64") if isinstance(dts, dict) else dts))
        if ro:
            a.setflags(write=False)
        return a
    if ro:
        for m in masks:
            m.setflags(write=False)
    ii = (lambda v: numpy.int64(v)) if cfg.get("np_scalars") else (lambda v: v)
    xl, xg = int(cfg.get("extra_layers", 0)), int(cfg.get("extra_gs", 0))
    alts = list(cfg["alts"]) + [25000.0 + 1000.0 * k for k in range(xl)]
    r0s = list(cfg["r0s"]) + [0.3] * xl
    L0s = list(cfg["L0s"]) + [30.0] * xl
    gs_pos = [list(g) for g in cfg["gs_pos"]] + [[11.0 * (k + 1), -7.0] for k in range(xg)]
    return sc.CovarianceMatrix(
        ii(cfg["n_wfs"]), masks, cfg["tel"], conv(cfg["diams"], "diams"), conv(cfg["gs_alt"], "gs_alt"), conv(gs_pos, "gs_pos"), conv(cfg["wl"], "wl"),
        ii(cfg["n_layers"]), conv(alts, "alts"), conv(r0s, "r0s"), conv(L0s, "L0s"), ii(threads))


def _mbytes(m):
    import numpy
    m = numpy.asarray(m)
    return (str(m.dtype), m.shape, numpy.ascontiguousarray(m).tobytes())


def _hist_sig(seq):
    return tuple(seq)


def execute(plan, keep_log=False):
    import numpy
    sc = warm()
    res = core.Result()
    log = core.EventLog(keep_log)
    objs_cfg = json.loads(json.dumps(plan["objects"]))       # reconfig steps change the tracked configuration
    n_obj = len(objs_cfg)
    refs, objs, last, built, hist = {}, {}, {}, {}, {}

    def reference(o):
        """single-process result of a fresh object, built under the identity schedule (so that even a tree that uses a
        pool for threads=1 never creates a real pool here)"""
        if o not in refs:
            kern.configure(None, "inproc")
            try:
                m = make_object(sc, objs_cfg[o], 1).make_covariance_matrix()
                refs[o] = ("ok", _mbytes(m))
            except Exception as e:
                refs[o] = ("raised", type(e).__name__)
        return refs[o]

    def obj(o):
        if o not in objs:
            objs[o] = make_object(sc, objs_cfg[o], 1)
            hist[o] = []
        return objs[o]

    kern = simpool.Kernel(res, log)
    kern.__enter__()
    try:
        _run_steps(plan, sc, res, log, kern, objs_cfg, n_obj, refs, objs, last, built, hist, reference, obj)
    finally:
        kern.__exit__(None, None, None)
    res.digest = log.digest()
    res.sched_digest = log.full_digest()
    if keep_log:
        res.events = log.events
    return res


def _run_steps(plan, sc, res, log, kern, objs_cfg, n_obj, refs, objs, last, built, hist, reference, obj):
    import numpy
    held = []
    poison = seams.Poison()
    poison.install()
    try:
        _run_steps2(plan, sc, res, log, kern, objs_cfg, n_obj, refs, objs, last, built, hist, reference, obj, held, poison)
    finally:
        poison.on = False
        poison.uninstall()


def _run_steps2(plan, sc, res, log, kern, objs_cfg, n_obj, refs, objs, last, built, hist, reference, obj, held, poison):
    import numpy
    for si, st in enumerate(plan["steps"]):
        o = st["obj"] % n_obj
        op = st["op"]
        res.steps += 1
        if op == "new":
            objs[o] = make_object(sc, objs_cfg[o], st.get("threads", 1))
            hist[o] = []
            last.pop(o, None)
            built.pop(o, None)
            held[:] = [h_ for h_ in held if h_[0] != o]
            log.add(si, "new", o)
            res.count("op.new")
            continue
        c = obj(o)
        if op == "bad_build":
            old_threads = c.threads
            kern.configure(None, "inproc")
            try:
                c.threads = st.get("threads", 0)          # (a tree may validate on assignment)
                c.make_covariance_matrix()
                log.add(si, "bad_build", o, "returned")
            except BaseException as e:
                log.add(si, "bad_build", o, type(e).__name__)
            last.pop(o, None)
            try:
                c.threads = old_threads
            except Exception:
                pass
            res.count("fault.build_that_raises")
            continue
        if op == "clone":
            # the user checkpoints the object and goes on with the copy (copy support itself is not part of the property:
            # an object that refuses to be copied - it may hold a pool - simply stays as it is)
            import copy
            import pickle
            try:
                objs[o] = pickle.loads(pickle.dumps(c)) if st.get("how") == "pickle" else copy.deepcopy(c)
                res.count("op.clone")
                log.add(si, "clone", o, st.get("how"))
            except Exception as e:
                res.count("op.clone_refused")
                log.add(si, "clone-refused", o, type(e).__name__)
            continue
        if op == "reconfig":
            cfg = objs_cfg[o]
            key, f, sh = st["key"], st.get("f", 1.0), st.get("shift", 0.0)
            if key == "gs_pos":
                cfg[key] = [[round(x + sh, 3), round(y - sh, 3)] for x, y in cfg[key]]
            elif key == "gs_alt":
                cfg[key] = [0.0 if a else 90000.0 for a in cfg[key]]
            elif key == "alts":
                cfg[key] = sorted(round(a * f + 50.0, 2) for a in cfg[key])
            else:
                cfg[key] = [round(x * f, 10) for x in cfg[key]]
            fresh = make_object(sc, cfg, 1)          # how the constructor would store the new values
            attr = {"gs_pos": "gs_positions", "alts": "layer_altitudes", "gs_alt": "gs_altitudes", "r0s": "layer_r0s", "L0s": "layer_L0s",
                    "wl": "wfs_wavelengths"}[key]
            setattr(c, attr, getattr(fresh, attr))
            refs.pop(o, None)
            built.pop(o, None)
            last.pop(o, None)
            hist[o] = []
            held[:] = [h_ for h_ in held if h_[0] != o]
            res.count("op.reconfig")
            log.add(si, "reconfig", o, key)
            continue
        if op == "read":
            d = [int(c.total_subaps), [int(x) for x in c.n_subaps], int(c.threads)]
            if o in last:
                d.append(core.harr(c.covariance_matrix))
            log.add(si, "read", o, d)
            res.count("op.read")
            continue
        if op == "recon":
            if o not in last:
                log.add(si, "recon-skipped", o)
                continue
            res.count("op.recon")
            try:
                if st.get("cond") is None:
                    r1 = c.make_tomographic_reconstructor()          # documented default: svd_conditioning=0
                    r2 = sc.create_tomographic_covariance_reconstructor(last[o], c.n_subaps[0], 0)
                else:
                    r1 = c.make_tomographic_reconstructor(st["cond"])
                    r2 = sc.create_tomographic_covariance_reconstructor(last[o], c.n_subaps[0], st["cond"])
                same = _mbytes(r1) == _mbytes(r2)
                log.add(si, "recon", o, core.harr(r1))
            except Exception as e:
                log.add(si, "recon-raised", o, type(e).__name__)
                continue
            if not same:
                res.violate("recon", "C03:reconstructor-not-from-last-returned-matrix",
                            "object %d: method reconstructor differs from free function applied to the matrix last returned" % o, si)
            continue
        # ---- build
        k_threads = int(st["threads"])
        ref = reference(o)
        c.threads = numpy.int64(k_threads) if objs_cfg[o].get("np_scalars") and k_threads > 1 else k_threads
        hist[o].append(k_threads)
        res.count("op.build")
        res.count("op.build.mp" if k_threads > 1 else "op.build.sp")
        kern.configure(st.get("sched"), st.get("mode", "inproc"))
        kern.maps = []
        kern.failed_tasks = 0
        poison.on = True          # numpy.empty called from aotools code returns garbage that differs per allocation
        t_start = kern.now
        unc0 = kern.uncontrolled
        outcome = None
        if True:
            try:
                m = c.make_covariance_matrix()
                outcome = ("ok", _mbytes(m), m)
            except simpool.SimDeadlock as e:
                outcome = ("deadlock", str(e))
            except Exception as e:
                outcome = ("raised", type(e).__name__, str(e))
            poison.on = False
            res.sim_time += kern.now - t_start
            if kern.uncontrolled > unc0:
                res.count("uncontrolled_concurrency", kern.uncontrolled - unc0)
            for mp_ in kern.maps:
                comp = mp_.get("completion")
                comp = list(comp) if comp is not None else []
                log.sched(si, "map", mp_["kind"], mp_["workers"], mp_["chunks"], comp)
                res.count("pool.batches")
                if mp_["workers"] > len(mp_["chunks"]):
                    res.count("probe.more_workers_than_chunks")
                if comp and comp != sorted(comp):
                    res.count("probe.completion_not_in_submission_order")
                    res.sig("map", mp_["kind"], mp_["workers"], tuple(mp_["chunks"]), tuple(comp))
                    if comp == sorted(comp, reverse=True) and len(comp) > 2:
                        res.count("probe.completion_fully_reversed")
        if len(hist[o]) >= 2 and hist[o][-2] != k_threads and (hist[o][-2] == 1 or k_threads == 1):
            res.count("probe.rebuild_after_mode_toggle")
        if outcome[0] == "ok":
            log.add(si, "build", o, k_threads, hashlib.sha256(outcome[1][2]).hexdigest()[:16])
            res.step_results["build%s" % st.get("k", si)] = hashlib.sha256(outcome[1][2]).hexdigest()[:16]
        else:
            log.add(si, "build", o, k_threads, outcome[0], outcome[1])
        if ref[0] != "ok":
            # the single-process reference itself fails for this configuration: nothing to compare with
            res.inconclusive.append("reference build raised %s" % ref[1])
            continue
        if outcome[0] != "ok":
            last.pop(o, None)          # after a failed build the object holds no matrix the caller was given
        if kern.failed_tasks and outcome[0] == "raised":
            # a worker ran out of memory: the build may fail (it does on the unchanged tree) - it must not return wrong data,
            # and the next build must be right again
            res.count("fault.build_failed_after_injected_MemoryError")
            continue
        if outcome[0] == "deadlock":
            res.violate("deadlock", "C03:build-would-hang", "object %d threads=%d: %s" % (o, k_threads, outcome[1]), si)
            continue
        if outcome[0] == "raised":
            res.violate("raised", "C03:build-raised:%s" % outcome[1],
                        "object %d threads=%d raised %s(%s) although the single-process build succeeds"
                        % (o, k_threads, outcome[1], outcome[2][:200]), si)
            continue
        if outcome[1] != ref[1]:
            a = numpy.frombuffer(outcome[1][2], dtype=outcome[1][0]) if outcome[1][0] == ref[1][0] else None
            b = numpy.frombuffer(ref[1][2], dtype=ref[1][0])
            nd = int((a.view("uint8") != b.view("uint8")).sum()) if a is not None and a.shape == b.shape else -1
            res.violate("differs", "C03:build-differs-from-single-process-reference:%s" % ("mp" if k_threads > 1 else "sp"),
                        "object %d threads=%d history=%s: matrix differs from fresh single-process build (%d differing bytes, shape %s vs %s)"
                        % (o, k_threads, hist[o], nd, outcome[1][1], ref[1][1]), si)
        elif o in built and built[o] != outcome[1]:
            res.violate("differs", "C03:rebuild-differs-from-earlier-build",
                        "object %d threads=%d history=%s: differs from an earlier build of the same object" % (o, k_threads, hist[o]), si)
        built[o] = outcome[1]
        last[o] = outcome[2]
        # matrices handed out by earlier builds belong to the caller: a later build must not have written into them
        # (the shipped test compares the first returned matrix with the second one in exactly this way)
        for (o2, si2, arr2, b2) in list(held):
            if o2 == o and _mbytes(arr2) != b2:
                res.violate("differs", "C03:matrix-returned-by-an-earlier-build-was-overwritten",
                            "object %d: the matrix returned by the build at step %d no longer holds what it held then, after the build "
                            "with threads=%d at step %d" % (o, si2, k_threads, si), si)
                held.remove((o2, si2, arr2, b2))
        if len(held) < 12:
            held.append((o, si, outcome[2], outcome[1]))
        if len(hist[o]) >= 2 and any(x == 1 for x in hist[o]) and any(x > 1 for x in hist[o]):
            res.sig("hist", _hist_sig(hist[o]))


# ----------------------------------------------------------------------------------------------
# shrinking hints
# ----------------------------------------------------------------------------------------------
def order_variants(plan):
    """the same builds in reverse order: what a build returns must not depend on the builds (of this or of other
    objects) that ran before it"""
    import copy
    a = copy.deepcopy(plan)
    a["steps"] = [dict(st, k=i) for i, st in enumerate(a["steps"]) if st["op"] == "build"]
    if len(a["steps"]) < 2:
        return None
    b = copy.deepcopy(a)
    b["steps"] = list(reversed(b["steps"]))
    return [a, b]


def order_ops(variants):
    return [st["k"] for st in variants[0]["steps"]]


def order_drop(variants, drop):
    import copy
    drop = set(drop)
    out = []
    for v in variants:
        c = copy.deepcopy(v)
        c["steps"] = [st for st in c["steps"] if st["k"] not in drop]
        if not c["steps"]:
            return None
        out.append(c)
    return out


def simplify(plan):
    import copy
    steps = plan["steps"]
    # default schedule / inproc / fewer threads per build
    for i, st in enumerate(steps):
        if st["op"] != "build":
            continue
        if st.get("mode") == "forked":
            c = copy.deepcopy(plan)
            c["steps"][i]["mode"] = "inproc"
            yield c
        sch = st.get("sched") or {}
        for key, simple in (("stall", []), ("slow", {}), ("lat", [0.0]), ("advance", 0), ("chunk", "default"),
                            ("tie", [0]), ("dur", [1.0])):
            if sch.get(key) != simple:
                c = copy.deepcopy(plan)
                c["steps"][i]["sched"][key] = simple
                yield c
        if st["threads"] > 2:
            c = copy.deepcopy(plan)
            c["steps"][i]["threads"] = 2
            yield c
    # drop unused objects
    used = sorted(set(st["obj"] % len(plan["objects"]) for st in steps))
    if len(used) < len(plan["objects"]) and used:
        c = copy.deepcopy(plan)
        c["objects"] = [plan["objects"][u] for u in used]
        for st in c["steps"]:
            st["obj"] = used.index(st["obj"] % len(plan["objects"]))
        yield c
    # smaller configurations
    for oi, cfg in enumerate(plan["objects"]):
        if cfg["n_layers"] > 1:
            c = copy.deepcopy(plan)
            g = c["objects"][oi]
            g["n_layers"] -= 1
            for key in ("alts", "r0s", "L0s"):
                g[key] = g[key][:-1]
            yield c
        if cfg["n_wfs"] > 1:
            c = copy.deepcopy(plan)
            g = c["objects"][oi]
            g["n_wfs"] -= 1
            for key in ("masks", "diams", "gs_alt", "gs_pos", "wl"):
                g[key] = g[key][:-1]
            yield c
        if cfg.get("arrays"):
            c = copy.deepcopy(plan)
            c["objects"][oi]["arrays"] = False
            yield c


# ----------------------------------------------------------------------------------------------
# conformance of the stub against the real pool (not the deciding step)
# ----------------------------------------------------------------------------------------------
def _conformance_job(args):
    """runs inside a farm worker: same configuration with the REAL multiprocessing.Pool"""
    import gc
    import multiprocessing
    base_seed, i = args
    sc = warm()
    rng = core.Rng(core.derive(base_seed, "C03-conformance", i))
    cfg = gen_config(rng)
    threads = rng.choice([2, 3, 4])
    try:
        ref = _mbytes(make_object(sc, cfg, 1).make_covariance_matrix())
    except Exception as e:
        return {"index": i, "skipped": "reference raised %s" % type(e).__name__}
    def attempt(fn):
        try:
            return _mbytes(fn())
        except Exception as e:
            return ("raised", type(e).__name__)

    real = attempt(lambda: make_object(sc, cfg, threads).make_covariance_matrix())     # facade inactive -> real pool
    # aotools never closes its pool: terminate every real pool that exists now (killing only the workers is not enough,
    # the pool's maintenance thread would start new ones), then whatever children are left
    for o in gc.get_objects():
        try:
            if isinstance(o, simpool._REAL["mpp.Pool"]) and not isinstance(o, simpool.SimPool):
                o.terminate()
        except Exception:
            pass
    for p in multiprocessing.active_children():
        p.kill()
        p.join(2)
    gc.collect()
    try:
        with simpool.Kernel(None, None) as k:
            k.configure(gen_sched(rng.sub("s")), "inproc")
            sim = attempt(lambda: make_object(sc, cfg, threads).make_covariance_matrix())
    except Exception as e:
        sim = ("raised", type(e).__name__)
    return {"index": i, "cfg": cfg, "threads": threads, "real_eq_ref": real == ref, "sim_eq_ref": sim == ref}


def _conformance_isolated(args):
    # a fresh fork per job: a tree that caches pools in module state must not carry them from one job to the next
    return core.in_fresh_fork(_conformance_job, args, watchdog=280)


def extra_stage(tier, base_seed, farm):
    n = sizes(tier)["conformance"]
    out = {"coverage": {}, "violations": []}
    done, bad = 0, []
    for i in range(n):
        r = farm.call(_conformance_isolated, (base_seed, i), timeout=300)
        if "skipped" in r:
            continue
        done += 1
        if not r["real_eq_ref"]:
            out["violations"].append({
                "kind": "differs", "sig": "C03:real-pool-build-differs-from-single-process-reference", "stage": "conformance",
                "detail": "real multiprocessing.Pool build (threads=%d) differs from single-process build" % r["threads"],
                "index": i, "no_shrink": True,
                "plan": {"objects": [r["cfg"]], "steps": [], "conformance_index": i, "threads": r["threads"]}})
        if r["real_eq_ref"] != r["sim_eq_ref"]:
            bad.append(i)
    out["coverage"]["real_pool_conformance"] = {"builds_with_real_multiprocessing_pool": done,
                                                "stub_and_real_pool_disagree": bad}
    return out


def replay_stage(rp, out):
    import multiprocessing
    sc = warm()
    cfg = rp["plan"]["objects"][0]
    threads = rp["plan"]["threads"]
    ref = _mbytes(make_object(sc, cfg, 1).make_covariance_matrix())
    try:
        real = _mbytes(make_object(sc, cfg, threads).make_covariance_matrix())
    except Exception as e:
        real = ("raised", type(e).__name__)
    for p in multiprocessing.active_children():
        p.kill()
    if real != ref:
        print("VIOLATION property=C03 replay=%s" % rp.get("_path", "?"), file=out)
        return core.EXIT_VIOLATION
    print("replay: real-pool build equals the single-process build on this tree", file=out)
    return core.EXIT_OK
