"""
C06 - seeded screens are reproducible and instances are isolated (DESIGN.md section 6).

Actors (finite FFT screens, sub-harmonic screens, von Karman and Kolmogorov infinite screens) each run a
short program one library call per step; every seeded actor has a twin with the same seed and parameters
somewhere else in the schedule. Noise steps change the environment in between (global RNG reseeds and
draws, clock jumps, other library calls, further screens with the same seeds, gc, print options).
Entropy and the clock are simulated, so unseeded screens replay bit for bit as well.
"""
from sim import core, seams, screens

ID = "C06"

RULE = ("Each evaluation is one seeded schedule interleaving 4-14 screen actors (FFT, sub-harmonic, von Karman, Kolmogorov; every seeded "
        "actor twice with the same seed, siblings with other seeds, >= 2 unseeded actors) one library call per step with noise steps "
        "(numpy/python global RNG reseed, draw, set_state; simulated-clock jumps; other aotools calls incl. optimal_grouping which consumes the "
        "global RNG; extra screens with the same seeds; gc; print options). distinct_nontrivial counts distinct canonical step sequences "
        "(actor ids renamed by first appearance, kinds and noise kinds kept) in which at least one noise step or a step of another screen "
        "lies between two steps of some twin pair.")

# a run whose result depends on which unrelated runs were executed earlier in the same process is hidden state
# carried between calls - covered by this property's statement
HISTORY_DEPENDENCE_IS_VIOLATION = True

COMPONENTS = {
    "real": ["aotools.turbulence.phasescreen (ft_phase_screen, ft_sh_phase_screen)",
             "aotools.turbulence.infinitephasescreen (PhaseScreenVonKarman, PhaseScreenKolmogorov)", "numpy.random Generators / SeedSequence",
             "numpy global RandomState and python random (perturbed by noise steps)", "other aotools entry points used as noise"],
    "stub": ["OS entropy (numpy.random.bit_generator.randbits, os.urandom) -> counter hash of the run's entropy key",
             "wall clock (time.time/monotonic/perf_counter/..._ns, sleep) -> SimClock, frozen unless a plan step jumps it", "os.getpid -> constant"],
}

ASSUMPTIONS = [
    "twins are compared with each other on the same tree (no stored golden outputs), so a change of draw order cannot raise an alarm",
    "pre-emption is at library-call granularity: aotools has no threads of its own",
    "cross-process reproducibility is covered by re-executing a sample of runs in a fresh interpreter under another PYTHONHASHSEED and comparing run digests (which contain every screen digest)",
    "distinct integer seeds are expected to give different screens; int-vs-sequence seeds with equal entropy are never compared",
]

SEED_POOL = [0, 0, 1, 2, 7, 42, 12345, 2 ** 32, 2 ** 64 + 1, 2 ** 60 + 1, 1790455886123456789, {"seq": [1, 2, 3]}, {"np": 0}, {"np": 77},
             {"ss": 5, "shared": True}, {"ss": 99, "shared": True}, {"ss": 5}, {"ssc": [7, 0]}, {"ssc": [7, 1]}, {"ssc": [123456789, 2]}]
LIB_CALLS = ["optimal_grouping", "equivalent_layers", "circle", "ft2", "centre_of_gravity", "phase_covariance", "covmat", "cn2_to_r0"]


ALLOC = [None]          # the allocation-fault seam of the run in progress (installed by execute)

ANALYSES = ["rms_contrast", "image_contrast", "centre_of_gravity", "centre_of_gravity_thr", "brightest_pixel", "azimuthal_average",
            "structure_function", "ft2", "binImgs", "encircled_energy"]


def analyse(name, scrn):
    """a read-only analysis of a phase screen through the public API (results and exceptions are ignored)"""
    import aotools
    from aotools.turbulence import slopecovariance
    try:
        if name == "rms_contrast":
            aotools.image_processing.rms_contrast(scrn)
        elif name == "image_contrast":
            aotools.image_processing.image_contrast(scrn)
        elif name == "centre_of_gravity":
            aotools.centre_of_gravity(scrn)
        elif name == "centre_of_gravity_thr":
            aotools.centre_of_gravity(scrn, threshold=0.3)
        elif name == "brightest_pixel":
            aotools.brightest_pixel(scrn, 0.3)
        elif name == "azimuthal_average":
            aotools.azimuthal_average(scrn)
        elif name == "structure_function":
            slopecovariance.calculate_structure_function(scrn)
        elif name == "ft2":
            aotools.ft2(scrn, 0.1)
        elif name == "binImgs":
            aotools.binImgs(scrn, 2)
        elif name == "encircled_energy":
            aotools.encircled_energy(scrn)
    except Exception:
        pass


def warm():
    return screens.warm()


def sizes(tier):
    if tier == "thorough":
        return {"runs": 50000, "block": 100, "det": 64, "det_fresh": 8, "timeout": 6500, "order": 2000}
    return {"runs": 2400, "block": 25, "det": 24, "det_fresh": 6, "timeout": 900, "order": 200}


# ----------------------------------------------------------------------------------------------
def _seed_key(s):
    if isinstance(s, dict) and "np" in s:
        return repr(int(s["np"]))            # the same seed value, only in another integer type
    if isinstance(s, dict) and "ssc" in s:
        return "ssc%d.%d" % (int(s["ssc"][0]), int(s["ssc"][1]))
    if isinstance(s, dict) and "ss" in s:
        return "ss%d" % int(s["ss"])         # a SeedSequence with this entropy, shared object or not
    return repr(s)


def gen_noise(rng, n_actors):
    k = rng.weighted([("np_seed", 4), ("np_draw", 3), ("np_set_state", 1), ("py_seed", 1), ("py_draw", 1), ("clock", 3),
                      ("lib", 3), ("spawn", 2), ("gc", 0.5), ("printopts", 0.5), ("np_default_rng", 1), ("numba_threads", 1.5), ("fork", 1), ("failing_call", 1.5), ("analyse", 2.5)])
    if k == "analyse":
        # the caller passes the current screen of one of its screen objects to an analysis function of the library
        return {"k": k, "on": rng.randrange(n_actors), "name": rng.choice(ANALYSES)}
    if k == "failing_call":
        return {"k": k, "v": rng.randrange(100)}
    if k == "numba_threads":
        return {"k": k, "v": rng.randint(1, 4)}
    if k in ("np_seed", "py_seed", "np_set_state", "np_default_rng"):
        return {"k": k, "v": rng.choice([0, 1, 42, 12345, rng.randrange(2 ** 32)]), "n": rng.randint(1, 8)}
    if k == "np_draw":
        return {"k": k, "v": rng.randint(1, 50)}
    if k == "clock":
        return {"k": k, "v": rng.choice([1e-6, 0.001, 1.0, 3600.0, -5.0, 86400.0 * 365])}
    if k == "lib":
        return {"k": k, "name": rng.choice(LIB_CALLS), "v": rng.randrange(1000)}
    if k == "spawn":
        return {"k": k, "like": rng.randrange(n_actors), "rows": rng.randint(0, 4)}
    if k == "printopts":
        return {"k": k, "p": rng.randint(1, 6), "t": rng.randint(2, 20), "e": rng.randint(1, 3)}
    return {"k": k}


def gen_plan(rng, tier, index=0):
    actors = []
    n_groups = rng.randint(2, 4)
    long_run = rng.chance(0.1)
    for g in range(n_groups):
        r = rng.sub("group", g)
        kind = r.weighted([("FT", 2), ("FTSH", 2), ("VK", 3), ("KOL", 2)])
        params = screens.gen_params(r, kind, small=True, big=(tier == "thorough" and r.chance(0.1)))
        if g > 0 and r.chance(0.35):
            # a variant of the previous group: same kind, same seeds, parameters equal except one (instances and calls
            # must not share anything that depends on it)
            prev = [a for a in actors if a["group"] == g - 1][0]
            kind = prev["kind"]
            params = dict(prev["params"])
            key = r.choice([k for k in ("r0", "L0", "l0", "delta") if k in params])
            params[key] = round(params[key] * r.choice([0.5, 2.0, 1.5]), 6)
            variant_seed = prev["seed"]
        else:
            variant_seed = None
        if kind in ("FT", "FTSH") and "fft" not in params and r.chance(0.25):
            # the optional FFT= parameter: a plain function, or one buffer-owning object shared by all calls of the run
            params = dict(params, fft=r.choice(["plain", "shared-buffer", "shared-buffer"]))
        if params.get("nx") == 1:
            params["nx"] = 2          # a 1x1 screen holds only the piston mode, which is removed: it is 0 for every seed
        if kind in ("FT", "FTSH") and g == 0 and rng.chance(0.012 if tier != "thorough" else 0.03):
            params = dict(params, N=1024)            # a big screen: code paths that only large arrays take
        rows = 0 if kind in ("FT", "FTSH") else (r.randint(20, 60 if tier != "thorough" else 300) if long_run and g == 0 else r.randint(0, 6))
        s1 = variant_seed if variant_seed is not None else r.choice(SEED_POOL)
        a = len(actors)
        scrib = r.chance(0.5)
        # some infinite-screen actors restart their screen through the public make_initial_screen() after `restart` rows:
        # with the same seed the screen and every later row must replay
        restart = r.randint(0, max(0, rows - 1)) if (kind in ("VK", "KOL") and rows >= 1 and r.chance(0.3)) else None
        # some actors checkpoint their screen (copy.deepcopy or a pickle round trip) before adding row `at`, and step the
        # copy: the copy holds the same state, so it must predict the original's next rows, and stepping it must not
        # influence the original
        clone = ({"at": r.randint(1, rows), "rows": r.randint(1, 4), "how": r.choice(["deepcopy", "pickle", "copy"])}
                 if (kind in ("VK", "KOL") and rows >= 1 and restart is None and r.chance(0.3)) else None)
        rx = r.sub("restart-extras")
        # before restarting, some callers peek at the next row through the public get_new_row(); some restart with another seed
        # (obj.random_seed = s; obj.make_initial_screen()) - the screen must then be the one of that seed
        peek = restart is not None and rx.chance(0.4)
        reseed = None
        if restart is not None and isinstance(s1, int) and rx.chance(0.35):
            reseed = rx.choice([s for s in (0, 1, 2, 7, 42, 12345, 2 ** 32, s1 + 1) if s != s1])
        # an allocation fails while one of the two twins is being built (or called); its caller simply tries again
        cfault = rx.randint(0, 24) if rx.chance(0.12) else None
        actors.append({"kind": kind, "params": params, "seed": s1, "rows": rows, "twin_of": None, "group": g, "scribble": scrib, "restart": restart, "clone": clone,
                       "peek": peek, "restart_seed": reseed})
        actors.append({"kind": kind, "params": params, "seed": s1, "rows": rows, "twin_of": a, "group": g, "scribble": scrib, "restart": restart,
                       "peek": peek, "restart_seed": reseed, "construct_fault": cfault,
                       "clone": (clone if r.chance(0.5) else None),
                       "mutate_seed_after": (isinstance(s1, dict) and "seq" in s1 and restart is None and r.chance(0.6))})
        if kind in ("FT", "FTSH") and r.chance(0.3):
            # a third call with the same seed, later still
            actors.append({"kind": kind, "params": params, "seed": s1, "rows": rows, "twin_of": a, "group": g, "scribble": scrib})
        if r.chance(0.6):
            s2 = r.choice([s for s in SEED_POOL if _seed_key(s) != _seed_key(s1)] + [r.randrange(2 ** 31)])
            if isinstance(s1, int) and r.chance(0.5):
                s2 = s1 + r.choice([1, 2])           # a neighbouring seed (layer index added to a base seed), also for huge bases
            if isinstance(s1, dict) and "ssc" in s1:
                s2 = {"ssc": [s1["ssc"][0], s1["ssc"][1] + 1]}          # the sibling child of the same parent
            if _seed_key(s2) != _seed_key(s1):
                b = len(actors)
                actors.append({"kind": kind, "params": params, "seed": s2, "rows": rows, "twin_of": None, "group": g})
                if r.chance(0.4):
                    actors.append({"kind": kind, "params": params, "seed": s2, "rows": rows, "twin_of": b, "group": g})
        n_un = r.weighted([(0, 2), (1, 1), (2, 3), (3, 1)]) if g else 2
        for _ in range(n_un):
            ur = min(rows, 3)
            # an unseeded screen object re-used for a new realisation (make_initial_screen() in a Monte-Carlo loop)
            actors.append({"kind": kind, "params": params, "seed": "none", "rows": ur, "twin_of": None, "group": g,
                           "restart": (r.sub("unseeded-restart", len(actors)).randint(0, ur - 1)
                                       if (kind in ("VK", "KOL") and ur >= 1 and r.sub("unseeded-restart?", len(actors)).chance(0.4)) else None)})
    # in half of the programs every actor has its own numba thread count
    rn = rng.sub("numba-per-actor")
    if rn.chance(0.5):
        for a_ in actors:
            a_["numba"] = rn.randint(1, 4)
    # the interleaving: the scheduler picks the next actor; twins are never forced adjacent or apart
    r = rng.sub("sched")
    bag = []
    for i, a in enumerate(actors):
        bag.extend([i] * (a["rows"] + 1 + (1 if a.get("restart") is not None else 0)))
    r.shuffle(bag)
    p_noise = r.choice([0.0, 0.15, 0.3, 0.6])
    steps = []
    for i in bag:
        while r.chance(p_noise):
            steps.append({"noise": gen_noise(r, len(actors))})
        steps.append({"a": i})
    from sim.worlds import c03
    return {"ambient": rng.randrange(2 ** 31), "entropy": rng.randrange(2 ** 62), "numba_threads": rng.randint(1, 4),
            "pool": {"mode": "inproc", "sched": c03.gen_sched(rng.sub("pool"))}, "actors": actors, "steps": steps}


# ----------------------------------------------------------------------------------------------
class _Actor(object):
    def __init__(self, spec):
        self.spec = spec
        self.pc = 0
        self.obj = None
        self.trace = []
        self.dead = False

    def n_ops(self):
        return self.spec["rows"] + 1 + (1 if self.spec.get("restart") is not None else 0)

    def done(self):
        return self.pc >= self.n_ops()

    def step(self):
        """execute the next library call of this actor; returns the trace entry"""
        sp = self.spec
        kind = sp["kind"]
        try:
            if self.pc == 0:
                seed = screens.make_seed(sp["seed"])
                if sp.get("construct_fault") is not None and ALLOC[0] is not None:
                    # injected fault: the n-th allocation inside this call fails. If the call raises, the caller tries again with
                    # the same seed; if the library copes, so much the better - either way the screen must be the seed's screen
                    ALLOC[0].arm(sp["construct_fault"])
                    f0 = ALLOC[0].fired
                    first = None
                    try:
                        if kind in ("FT", "FTSH"):
                            first = ("finite", screens.call_finite(kind, sp["params"], seed))
                        else:
                            first = ("object", screens.construct_infinite(kind, sp["params"], seed))
                    except Exception:
                        first = None
                    finally:
                        ALLOC[0].disarm()
                    self.fault_fired = ALLOC[0].fired > f0
                    if first is None:
                        seed = screens.make_seed(sp["seed"])          # the call raised: the caller tries again
                else:
                    first = None
                if first is not None:
                    if first[0] == "finite":
                        out = first[1]
                        self.result = out
                    else:
                        self.obj = first[1]
                elif kind in ("FT", "FTSH"):
                    out = screens.call_finite(kind, sp["params"], seed)
                    self.result = out
                else:
                    self.obj = screens.construct_infinite(kind, sp["params"], seed)
                if kind not in ("FT", "FTSH"):
                    if sp.get("mutate_seed_after") and isinstance(seed, list):
                        seed[-1] += 1          # the caller reuses its seed list for the next layer: the constructor has returned,
                        seed.append(99)        # the screen must already be what the seed said at the call
                    out = self.obj.scrn
            else:
                if self.dead:
                    self.pc += 1
                    self.trace.append(("skipped",))
                    return self.trace[-1]
                cl = sp.get("clone")
                if cl and self.pc == cl["at"] and not getattr(self, "clone_trace", None):
                    import copy
                    import pickle
                    try:
                        if cl["how"] == "pickle":
                            other = pickle.loads(pickle.dumps(self.obj))
                        elif cl["how"] == "copy":
                            other = copy.deepcopy(self.obj)
                            other2 = copy.deepcopy(other)      # a copy of the copy, stepped first
                            other2.add_row()
                        else:
                            other = copy.deepcopy(self.obj)
                    except Exception:
                        other = None       # an object that cannot be copied / pickled: not this property's business
                    if other is not None:
                        self.clone_trace = []
                        for _ in range(cl["rows"]):
                            try:
                                o2 = other.add_row()
                                self.clone_trace.append(("ok", core.hbytes(repr(screens.abytes(o2)[:2]).encode() + screens.abytes(o2)[2])))
                            except Exception as ex2:
                                self.clone_trace.append(("raised", type(ex2).__name__))
                if sp.get("restart") is not None and self.pc == sp["restart"] + 1:
                    if sp.get("peek"):
                        try:
                            self.obj.get_new_row()
                        except AttributeError:
                            pass
                    if sp.get("restart_seed") is not None:
                        self.obj.random_seed = screens.make_seed(sp["restart_seed"])
                    self.obj.make_initial_screen()
                    out = self.obj.scrn
                    self.restarted_at = self.pc
                else:
                    out = self.obj.add_row()
            e = ("ok", core.hbytes(repr(screens.abytes(out)[:2]).encode() + screens.abytes(out)[2]))
            if kind in ("FT", "FTSH") and not sp.get("scribble"):
                self.kept = (out, screens.abytes(out))          # the caller keeps the screen it was given
            if sp.get("scribble") and kind in ("FT", "FTSH"):
                # the returned screen belongs to the caller, who converts it in place (radians -> nanometres, as the
                # docstring suggests) - a later call with the same seed must not see that
                try:
                    out *= 79.6
                    out[0, 0] = 12345.0
                    self.scribbled = True
                except Exception:
                    pass
        except Exception as ex:
            e = ("raised", type(ex).__name__)
            if self.pc == 0:
                self.dead = True
        self.pc += 1
        self.trace.append(e)
        return e


def lib_call(name, v):
    """an unrelated public aotools call used as noise (results are ignored, exceptions too)"""
    import numpy
    import aotools
    h = numpy.arange(8.) * 1000. + 10.
    p = (numpy.arange(8.) % 3 + 1.) * 1e-15
    try:
        if name == "optimal_grouping":
            aotools.turbulence.profile_compression.optimal_grouping(2 + v % 3, 3, h, p)     # consumes the global RNG
        elif name == "equivalent_layers":
            aotools.turbulence.profile_compression.equivalent_layers(h, p, 3)
        elif name == "circle":
            aotools.circle(3 + v % 4, 12)
        elif name == "ft2":
            aotools.ft2(numpy.ones((8, 8)) * (v + 1), 0.1)
        elif name == "centre_of_gravity":
            aotools.centre_of_gravity(numpy.arange(36.).reshape(6, 6) + v)
        elif name == "phase_covariance":
            aotools.phase_covariance(numpy.linspace(0.1, 3, 7), 0.15, 20.)
        elif name == "covmat":
            m = [numpy.ones((2, 2))] * 2
            aotools.CovarianceMatrix(2, m, 2., [1., 1.], [0, 0], [[0, 0], [5, 0]], [5e-7, 5e-7], 1, [0.], [0.2], [25.]).make_covariance_matrix()
        elif name == "cn2_to_r0":
            aotools.cn2_to_r0(1e-13 * (1 + v), 5e-7)
    except Exception:
        pass


def _execute(plan, keep_log=False):
    res = core.Result()
    log = core.EventLog(keep_log)
    screens.warm()
    seams.reset_ambient(plan["ambient"], plan.get("numba_threads", 1))
    screens.reset_shared_seeds()
    specs = plan["actors"]
    actors = [_Actor(s) for s in specs]
    n = len(actors)
    canon, names = [], {}
    last_op_at = [None] * n
    noise_since = [set() for _ in range(n)]       # noise kinds / foreign actors seen since this actor's previous op
    last_unseeded_tick = [None]

    def canon_name(i):
        if i not in names:
            names[i] = "%s%d" % (specs[i]["kind"], len(names))
        return names[i]

    with seams.SimEnv(plan["entropy"]) as env:
        def run_actor_op(i, si):
            a = actors[i]
            if a.done():
                return
            if specs[i].get("numba") is not None:
                # every actor works under its own numba thread count (ambient state the caller may set at any time): twins with the
                # same seed regularly run under different counts
                seams.set_numba_threads(specs[i]["numba"])
                res.count("fault.numba_thread_count_set_per_actor")
            before = seams.ambient_digest()
            e = a.step()
            after = seams.ambient_digest()
            res.steps += 1
            res.count("op.%s" % ("construct" if a.pc == 1 else "add_row"))
            if getattr(a, "scribbled", False) and a.pc == 1:
                res.count("fault.caller_modified_returned_screen_in_place")
            log.add(si, "op", i, a.pc - 1, e)
            if specs[i]["seed"] != "none":
                res.step_results["a%d.%d" % (specs[i].get("k", i), a.pc - 1)] = list(e)
            if before != after:
                res.violate("ambient", "C06:screen-op-changed-global-rng:%s" % specs[i]["kind"],
                            "actor %d (%s, seed %r) op %d changed numpy's or python's global random state"
                            % (i, specs[i]["kind"], specs[i]["seed"], a.pc - 1), si)
            # probes
            tw = specs[i]["twin_of"]
            partner = tw if tw is not None else next((j for j, s in enumerate(specs) if s["twin_of"] == i), None)
            if a.pc > 1 and "np_seed" in noise_since[i]:
                res.count("probe.global_reseed_between_rows_of_an_instance")
            if partner is not None and a.pc > 1 and ("actor%d" % partner) in noise_since[i] and not actors[partner].done():
                res.count("probe.same_seed_instances_stepped_alternately")
            if specs[i]["seed"] == 0 and a.pc == 1:
                res.count("probe.seed_zero_used")
            if specs[i]["seed"] == "none" and a.pc == 1:
                if last_unseeded_tick[0] == env.now:
                    res.count("probe.unseeded_pair_within_one_clock_tick")
                last_unseeded_tick[0] = env.now
            noise_since[i] = set()
            for j in range(n):
                if j != i:
                    noise_since[j].add("actor%d" % i)

        for si, st in enumerate(plan["steps"]):
            if "noise" in st:
                op = st["noise"]
                k = op["k"]
                if k == "failing_call":
                    screens.failing_call(op.get("v", 0))
                    res.count("fault.noise.failing_call")
                elif k == "analyse":
                    tgt = actors[op["on"] % n]
                    scr = None
                    if getattr(tgt, "obj", None) is not None and not tgt.dead:
                        scr = tgt.obj.scrn
                    elif getattr(tgt, "kept", None) is not None:
                        scr = tgt.kept[0]
                    if scr is not None:
                        analyse(op["name"], scr)
                        res.count("fault.noise.analyse_current_screen")
                elif k == "lib":
                    lib_call(op["name"], op.get("v", 0))
                    res.count("fault.noise.lib." + op["name"])
                elif k == "spawn":
                    sp = specs[op["like"] % n]
                    try:
                        if sp["kind"] in ("FT", "FTSH"):
                            screens.call_finite(sp["kind"], sp["params"], screens.make_seed(sp["seed"]))
                        else:
                            o = screens.construct_infinite(sp["kind"], sp["params"], screens.make_seed(sp["seed"]))
                            for _ in range(op.get("rows", 0)):
                                o.add_row()
                            del o
                    except Exception:
                        pass
                    res.count("fault.noise.spawn_same_seed")
                else:
                    seams.apply_noise(op, env, res)
                res.steps += 1
                log.add(si, "noise", k, seams.ambient_digest())
                canon.append("~" + k)
                for j in range(n):
                    noise_since[j].add(k)
                continue
            i = st["a"] % n
            canon.append(canon_name(i))
            run_actor_op(i, si)
        # drain: whatever a shrunk schedule left unfinished runs now, in index order
        for i in range(n):
            while not actors[i].done():
                run_actor_op(i, len(plan["steps"]))
        res.sim_time = env.advanced
        res.count("seam.entropy_requests", env.n_entropy)
        res.count("seam.clock_reads", env.clock_reads)

    # ---- history checks ---------------------------------------------------------------------------
    def pkey(s):
        return (s["kind"], repr(sorted(s["params"].items())))

    for i, s in enumerate(specs):
        kept = getattr(actors[i], "kept", None)
        if kept is not None:
            res.count("oracle.kept_screens_compared")
            if screens.abytes(kept[0]) != kept[1]:
                res.violate("aliasing", "C06:screen-returned-earlier-was-overwritten:%s" % s["kind"],
                            "actor %d (%s, seed %r, params %s): the screen this call returned has changed since - a later call wrote into "
                            "the array the caller had been given" % (i, s["kind"], s["seed"], s["params"]), -1)
    for i, s in enumerate(specs):
        ct = getattr(actors[i], "clone_trace", None)
        if ct and s.get("clone"):
            at = s["clone"]["at"]
            tr = actors[i].trace
            res.count("oracle.checkpoint_copies_compared")
            for j, e in enumerate(ct):
                if at + j < len(tr) and tr[at + j][0] == "ok" and e != tr[at + j]:
                    res.violate("clone", "C06:copy-of-a-screen-not-isolated:%s:%s" % (s["kind"], s["clone"]["how"]),
                                "actor %d (%s, seed %r): a %s of the screen taken before row %d produced %s as its row %d, the original "
                                "produced %s: copy and original share state or the copy lost it"
                                % (i, s["kind"], s["seed"], s["clone"]["how"], at, e, j + 1, tr[at + j]), -1)
                    break
    for a_ in actors:
        if getattr(a_, "fault_fired", False):
            res.count("fault.allocation_failed_during_construction_or_call")
    for i, s in enumerate(specs):
        ra = getattr(actors[i], "restarted_at", None)
        if ra is not None and s["seed"] != "none" and s.get("restart_seed") is not None:
            # restarted with another seed: a different screen, and the very screen a fresh object with that seed shows
            tr = actors[i].trace
            res.count("oracle.reseeded_restarts_compared")
            if ra < len(tr) and tr[0][0] == "ok" and tr[ra] == tr[0]:
                res.violate("restart", "C06:restart-with-another-seed-gives-the-same-screen:%s" % s["kind"],
                            "actor %d (%s): random_seed set to %r (was %r) and make_initial_screen() called at op %d: the initial screen is the "
                            "one of the old seed" % (i, s["kind"], s["restart_seed"], s["seed"], ra), -1)
            for k2, s2 in enumerate(specs):
                if k2 != i and s2["kind"] == s["kind"] and s2["params"] == s["params"] and s2["seed"] != "none" \
                        and _seed_key(s2["seed"]) == _seed_key(s["restart_seed"]):
                    lim = getattr(actors[k2], "restarted_at", None) or len(actors[k2].trace)
                    for j in range(min(len(tr) - ra, lim)):
                        if tr[ra + j][0] == "ok" and actors[k2].trace[j][0] == "ok" and tr[ra + j] != actors[k2].trace[j]:
                            res.violate("restart", "C06:restart-with-another-seed-differs-from-a-fresh-object:%s" % s["kind"],
                                        "actor %d (%s) restarted with seed %r differs at %s from actor %d built with that seed"
                                        % (i, s["kind"], s["restart_seed"], "the initial screen" if j == 0 else "row %d" % j, k2), -1)
                            break
                    break
            continue
        if ra is not None and s["seed"] != "none":
            tr = actors[i].trace
            res.count("oracle.restarts_compared")
            for j in range(len(tr) - ra):
                if j < ra and tr[ra + j] != tr[j]:
                    res.violate("restart", "C06:restart-with-same-seed-does-not-replay:%s" % s["kind"],
                                "actor %d (%s, seed %r): after make_initial_screen() at op %d the %s differs from what the same seed "
                                "gave after construction (%s vs %s)" % (i, s["kind"], s["seed"], ra, "initial screen" if j == 0 else "row %d" % j, tr[ra + j], tr[j]), -1)
                    break
    for i, s in enumerate(specs):
        ra = getattr(actors[i], "restarted_at", None)
        if ra is not None and s["seed"] == "none":
            tr = actors[i].trace
            res.count("oracle.unseeded_restarts_compared")
            if ra < len(tr) and tr[0][0] == "ok" and tr[ra] == tr[0]:
                res.violate("unseeded", "C06:unseeded-restart-repeats-the-screen:%s" % s["kind"],
                            "actor %d (%s, unseeded): make_initial_screen() at op %d produced the same initial screen as the "
                            "construction did (%s): unseeded realisations must differ" % (i, s["kind"], ra, tr[0]), -1)
    for i, s in enumerate(specs):
        t = s["twin_of"]
        if t is None:
            continue
        a, b = actors[t].trace, actors[i].trace
        for k in range(min(len(a), len(b))):
            if a[k] != b[k]:
                res.violate("twin", "C06:same-seed-not-reproducible:%s:%s" % (s["kind"], "construct" if k == 0 else "rows"),
                            "actors %d and %d (%s, seed %r, params %s) differ at op %d (0 = construction/call, k = k-th added row): %s vs %s"
                            % (t, i, s["kind"], s["seed"], s["params"], k, a[k], b[k]), -1)
                break
        res.count("oracle.twin_pairs_compared")
    for i in range(n):
        for j in range(i + 1, n):
            si_, sj_ = specs[i], specs[j]
            if pkey(si_) != pkey(sj_) or not actors[i].trace or not actors[j].trace:
                continue
            if actors[i].trace[0][0] != "ok" or actors[j].trace[0][0] != "ok":
                continue
            same0 = actors[i].trace[0] == actors[j].trace[0]
            if si_["seed"] == "none" and sj_["seed"] == "none":
                res.count("oracle.unseeded_pairs_compared")
                if same0:
                    res.violate("unseeded", "C06:unseeded-calls-identical:%s" % si_["kind"],
                                "unseeded actors %d and %d (%s, params %s) produced the same screen" % (i, j, si_["kind"], si_["params"]), -1)
            elif si_["seed"] != "none" and sj_["seed"] != "none" and _seed_key(si_["seed"]) == _seed_key(sj_["seed"]) \
                    and repr(si_["seed"]) != repr(sj_["seed"]):
                res.count("oracle.same_seed_other_integer_type_compared")
                if not same0:
                    res.violate("twin", "C06:same-seed-not-reproducible:%s:integer-type" % si_["kind"],
                                "actors %d and %d (%s): seed %r and seed %r are the same value in different integer types but give "
                                "different screens" % (i, j, si_["kind"], si_["seed"], sj_["seed"]), -1)
            elif si_["seed"] != "none" and sj_["seed"] != "none" and _seed_key(si_["seed"]) != _seed_key(sj_["seed"]):
                res.count("oracle.different_seed_pairs_compared")
                if same0:
                    res.violate("seeds", "C06:different-seeds-same-screen:%s" % si_["kind"],
                                "actors %d and %d (%s) with seeds %r and %r produced the same screen" % (i, j, si_["kind"], si_["seed"], sj_["seed"]), -1)
            elif (si_["seed"] == "none") != (sj_["seed"] == "none"):
                if same0:
                    res.violate("unseeded", "C06:unseeded-call-equals-seeded:%s" % si_["kind"],
                                "unseeded actor and seeded actor (%d, %d; %s) produced the same screen" % (i, j, si_["kind"]), -1)

    # ---- distinctness ---------------------------------------------------------------------------------
    nontrivial = False
    pos = {}
    for k, c in enumerate(canon):
        pos.setdefault(c, []).append(k)
    for i, s in enumerate(specs):
        t = s["twin_of"]
        if t is None or i not in names or t not in names:
            continue
        ks = sorted(pos.get(names[i], []) + pos.get(names[t], []))
        if ks and (ks[-1] - ks[0] + 1) > len(ks):
            nontrivial = True
            break
    if nontrivial:
        res.sig("sched", tuple(canon))
    res.digest = log.digest()
    res.sched_digest = log.full_digest()
    if keep_log:
        res.events = log.events
    return res


def order_variants(plan):
    """the same actors, (A) in the plan's interleaving with its noise steps, (B) one after the other in reverse order
    without any noise: what a seeded actor returns must be the same"""
    import copy
    a = copy.deepcopy(plan)
    for i, sp in enumerate(a["actors"]):
        sp["k"] = i
    b = copy.deepcopy(a)
    steps = []
    for i in reversed(range(len(b["actors"]))):
        steps.extend([{"a": i}] * (b["actors"][i]["rows"] + 1 + (1 if b["actors"][i].get("restart") is not None else 0)))
    b["steps"] = steps
    return [a, b]


def simplify(plan):
    import copy
    # drop noise payload complexity, shorten programs, drop actors that nothing refers to
    for i, st in enumerate(plan["steps"]):
        if "noise" in st and st["noise"]["k"] not in ("np_seed",):
            c = copy.deepcopy(plan)
            c["steps"][i] = {"noise": {"k": "np_seed", "v": 0}}
            yield c
    n = len(plan["actors"])
    for i in reversed(range(n)):
        a = plan["actors"][i]
        if any(s.get("twin_of") == i for s in plan["actors"]):
            continue
        c = copy.deepcopy(plan)
        del c["actors"][i]
        for s in c["actors"]:
            if s["twin_of"] is not None and s["twin_of"] > i:
                s["twin_of"] -= 1
        new_steps = []
        for st in c["steps"]:
            if "a" in st:
                if st["a"] % n == i:
                    continue
                st = {"a": st["a"] % n - (1 if st["a"] % n > i else 0)}
            elif st["noise"].get("k") == "spawn":
                l = st["noise"]["like"] % n
                if l == i:
                    continue
                st = {"noise": dict(st["noise"], like=l - (1 if l > i else 0))}
            elif st["noise"].get("k") == "analyse":
                l = st["noise"]["on"] % n
                if l == i:
                    continue
                st = {"noise": dict(st["noise"], on=l - (1 if l > i else 0))}
            new_steps.append(st)
        c["steps"] = new_steps
        if c["actors"]:
            yield c
    for i, a in enumerate(plan["actors"]):
        if a["rows"] > 0:
            c = copy.deepcopy(plan)
            newr = a["rows"] // 2
            for s in c["actors"]:
                if s["group"] == a["group"]:
                    s["rows"] = min(s["rows"], newr)
            yield c


def execute(plan, keep_log=False):
    """every pool or executor the library may create while this plan runs is a simulated one (thread pools under the baton
    scheduler), so that concurrency introduced into these code paths is decided by the plan and replays"""
    from sim import simpool
    kern = simpool.Kernel(None, None)
    kern.__enter__()
    try:
        pool = plan.get("pool") or {}
        kern.configure(pool.get("sched"), pool.get("mode", "inproc"))
        ALLOC[0] = seams.AllocFault()
        ALLOC[0].install()
        return _execute(plan, keep_log)
    finally:
        if ALLOC[0] is not None:
            ALLOC[0].uninstall()
            ALLOC[0] = None
        kern.__exit__(None, None, None)
