"""
C18 - profile compression conserves the turbulence it compresses (DESIGN.md section 7, scoped claim).

The only nondeterminism here is NumPy's global RNG feeding the random restarts of optimal_grouping, and the
statement quantifies over all of its states. The simulation drives exactly that: seeded histories of ambient
RNG states (reseeds incl. edge seeds, set_state, draws, earlier compression calls) and an adversarial stub
for numpy.random.choice that returns an arbitrary *legal* outcome chosen by the plan (randomness treated as
scheduler nondeterminism). Conservation oracles run after every compression call. The equivalent-layers and
GCTM clauses have no RNG/history dimension; they are evaluated as workload oracles on the same profiles and
reported separately.
"""
from sim import core, seams, screens

ID = "C18"

RULE = ("Each evaluation is one seeded history of 4-14 steps: ambient-RNG noise steps (numpy.random.seed with arbitrary and edge seeds, set_state, "
        "draws, python random) interleaved with compression calls (optimal_grouping with R 0-5, equivalent_layers with/without wind, GCTM) on 1-3 "
        "profiles (N 2-40 layers, regular / irregular / clustered heights, strengths over 6 decades, L from 1 to N-1); in a third of the runs "
        "numpy.random.choice is an adversarial stub returning a plan-chosen legal outcome (lowest, highest, adjacent run, reversed, seeded sample). "
        "distinct_nontrivial counts distinct tuples (method, N, L, height kind, RNG-history class, stub policy) of compression calls that were "
        "preceded by at least one noise step or earlier compression call in their history.")

COMPONENTS = {
    "real": ["aotools.turbulence.profile_compression (equivalent_layers, optimal_grouping incl. numba cost kernel, GCTM with scipy.optimize.minimize)",
             "numpy global RandomState (driven by the plan)"],
    "stub": ["numpy.random.choice -> 'any legal outcome' stub in a third of the runs (validates the request, outcome chosen by the plan)"],
}

ASSUMPTIONS = [
    "scope: only the optimal-grouping clauses have an RNG/history dimension; equivalent-layers and GCTM clauses are pure in their input and ride along as workload oracles (counted separately in coverage)",
    "conservation tolerances: total strength 1e-12 relative; 5/3 moments 1e-10 relative (ignoring empty slabs)",
    "'cost no worse than the equal split': the returned grouping is reconstructed from the returned strengths (contiguous groups, cumulative sums) and its cost compared with the equal split by numpy.linspace(0,N,L+1,dtype=int) and by numpy.array_split; passing either suffices",
    "GCTM 'to optimiser accuracy' is read as: L layers, strengths >= 0, objective at the result not above the objective at the starting guess; only profiles whose L equal-thickness slabs are all non-empty",
    "the value returned by optimal_grouping may legitimately differ between RNG histories (random restarts are documented behaviour); only its invariants are demanded",
]

STUB_POLICIES = ["lowest", "highest", "adjacent", "reversed", "sample", "duplicates_if_allowed"]


def warm():
    return screens.warm()


def sizes(tier):
    if tier == "thorough":
        return {"runs": 50000, "block": 100, "det": 64, "det_fresh": 8, "timeout": 6500}
    return {"runs": 1600, "block": 25, "det": 24, "det_fresh": 6, "timeout": 900}


# ----------------------------------------------------------------------------------------------
def gen_profile(rng, big=False):
    N = rng.weighted([(rng.randint(2, 6), 3), (rng.randint(7, 20), 4), (rng.randint(21, 40), 2)] + ([(rng.randint(41, 100), 3)] if big else []))
    kind = rng.weighted([("regular", 4), ("irregular", 3), ("clustered", 1), ("regular_float_range", 3), ("surface_gap", 1.5), ("log", 1)])
    return {"N": N, "kind": kind, "hmin": rng.choice([0.0, 0.0, 10.0, round(rng.uniform(0, 500), 3)]),
            "hmax": rng.choice([20000.0, 25000.0, rng.uniform(5000, 30000)]), "fill": rng.randrange(10 ** 6),
            "decades": rng.choice([0, 1, 3, 6]), "wind": rng.chance(0.6),
            # how the caller holds the profile: dtype and memory layout are the caller's business
            "h_int": rng.chance(0.1), "w_int": rng.chance(0.25), "strided": rng.chance(0.15), "readonly": rng.chance(0.15),
            "dup": rng.weighted([(0, 4), (1, 1), (2, 1)]),
            "zeros": rng.weighted([(None, 5), ("top", 1.5), ("some", 1)])}      # layers of exactly zero strength (a zero-padded profile)          # layers listed at the same height (dome + surface layer)


def gen_plan(rng, tier, index=0):
    if index % 5 == 4:
        # moment-matching workload: long profiles compressed to 5-8 layers, where the optimiser has real work to do (and now
        # and then stops early); the profile buffer is refilled between calls
        r = rng.sub("gctm-heavy")
        prof = gen_profile(rng.sub("prof", 0), False)
        prof.update({"N": r.randint(36, 60), "kind": r.choice(["regular", "irregular", "regular_float_range", "log"]), "zeros": None, "dup": 0,
                     "decades": r.choice([1, 3]), "hmin": r.choice([0.0, 0.0, 10.0])})
        steps = []
        for _ in range(8):
            steps.append({"op": "gctm", "prof": 0, "L": r.randint(5, 8), "perm": None, "units": None})
            steps.append({"op": "refill", "prof": 0, "fill": r.randrange(10 ** 6), "which": "p"})
        steps.append({"op": "og", "prof": 0, "L": 4, "R": 1, "stub": None})
        from sim.worlds import c03
        return {"ambient": rng.randrange(2 ** 31), "pool": {"mode": "inproc", "sched": c03.gen_sched(rng.sub("pool"))}, "profiles": [prof], "steps": steps}
    big = tier == "thorough" and rng.chance(0.1)
    profs = [gen_profile(rng.sub("prof", i), big) for i in range(rng.weighted([(1, 4), (2, 3), (3, 1)]))]
    r = rng.sub("hist")
    stub_run = r.chance(0.33)
    steps = []
    for _ in range(r.randint(4, 14)):
        x = r.random()
        if x < 0.35:
            k = r.weighted([("np_seed", 5), ("np_draw", 3), ("np_set_state", 2), ("py_seed", 0.5)])
            v = r.choice([0, 1, 2 ** 32 - 1, 12345, r.randrange(2 ** 32)]) if k != "np_draw" else r.randint(1, 40)
            steps.append({"noise": {"k": k, "v": v, "n": r.randint(1, 9)}})
            continue
        pi = r.randrange(len(profs))
        N = profs[pi]["N"]
        if x < 0.40:
            # a call that is refused with an exception (float R, L >= N, L = 0): error paths must not leave anything behind
            steps.append({"op": "bad_call", "prof": pi, "how": r.choice(["float_R", "L_ge_N", "L_zero", "eq_L_zero"])})
            continue
        if x < 0.47:
            # the caller refills the SAME array objects with another profile (a loop over a preallocated buffer)
            steps.append({"op": "refill", "prof": pi, "fill": r.randrange(10 ** 6), "which": r.choice(["p", "p", "hp"])})
            continue
        m = r.weighted([("og", 6), ("eq", 3), ("gctm", 1.5)])
        if m == "og":
            L = r.randint(1, N - 1) if N > 2 else 1
            steps.append({"op": "og", "prof": pi, "L": L, "R": r.weighted([(0, 1), (1, 2), (2, 2), (5, 1)] + ([(10, 1)] if tier == "thorough" else [])),
                          "stub": ({"policy": r.choice(STUB_POLICIES), "arg": r.randrange(1000)} if stub_run else None)})
        elif m == "eq":
            steps.append({"op": "eq", "prof": pi, "L": r.randint(1, N - 1) if N > 2 else 1, "wind": profs[pi]["wind"] and r.chance(0.7),
                          "perm": r.weighted([(None, 5), ("desc", 2), (r.randrange(10 ** 6), 3)])})
        else:
            # the caller's units: heights in km / strengths as fractions, with the matching scalings passed along
            steps.append({"op": "gctm", "prof": pi, "L": r.randint(1, max(1, min(3 if r.chance(0.5) else (8 if tier == "thorough" else 6), N // 3))),
                          "perm": r.weighted([(None, 6), ("desc", 2), (r.randrange(10 ** 6), 2)]),
                          "units": r.weighted([(None, 5), ({"h": 1e-3, "p": 1.0}, 2), ({"h": 1.0, "p": 1e13}, 2), ({"h": 1e-3, "p": 3.7e14}, 2)])})
    if not any(s.get("op") == "og" for s in steps):
        steps.append({"op": "og", "prof": 0, "L": max(1, profs[0]["N"] // 2), "R": 2, "stub": None})
    from sim.worlds import c03
    return {"ambient": rng.randrange(2 ** 31), "pool": {"mode": "inproc", "sched": c03.gen_sched(rng.sub("pool"))}, "profiles": profs, "steps": steps}


def sample_view(plan):
    return plan


# ----------------------------------------------------------------------------------------------
def build_profile(sp):
    import numpy
    rs = numpy.random.RandomState(sp["fill"] % (2 ** 32))
    N = sp["N"]
    if sp["kind"] == "regular":
        h = numpy.linspace(sp["hmin"], 20000.0 + sp["hmin"], N)
    elif sp["kind"] == "regular_float_range":
        h = numpy.linspace(sp["hmin"], sp["hmax"], N)
    elif sp["kind"] == "irregular":
        h = numpy.sort(rs.uniform(sp["hmin"], sp["hmax"], N))
    elif sp["kind"] == "surface_gap":
        # an isolated surface layer at exactly h = 0, a turbulence-free gap, then the free atmosphere
        h = numpy.concatenate([[0.0], numpy.linspace(0.35 * sp["hmax"], sp["hmax"], max(1, N - 1))])[:N]
    elif sp["kind"] == "log":
        h = numpy.logspace(1.0, numpy.log10(max(sp["hmax"], 100.0)), N)
    else:
        centres = rs.uniform(sp["hmin"], sp["hmax"], 3)
        h = numpy.sort(numpy.abs(centres[rs.randint(0, 3, N)] + rs.normal(0, 200, N)))
    # increasing heights ...
    for i in range(1, N):
        if h[i] <= h[i - 1]:
            h[i] = h[i - 1] + 1.0
    # ... except that a few layers may sit at exactly the same height as their neighbour
    for d in range(int(sp.get("dup", 0))):
        if N >= 3:
            j = (sp["fill"] + 7 * d) % (N - 1)
            h[j + 1] = h[j]
    if h[-1] <= h[0]:
        h[-1] = h[0] + 1.0          # a profile of zero thickness is degenerate (the slab width would be 0): not generated
    p = 10.0 ** rs.uniform(-sp["decades"] / 2.0, sp["decades"] / 2.0, N) * 1e-15
    if sp.get("zeros") == "top" and N >= 3:
        p[-max(1, N // 4):] = 0.0
    elif sp.get("zeros") == "some" and N >= 3:
        p[rs.random_sample(N) < 0.3] = 0.0
        if not p.any():
            p[0] = 1e-15
    w = rs.uniform(1.0, 40.0, N) if sp["wind"] else None
    if sp.get("w_int") and w is not None:
        w = numpy.round(w).astype("int64")          # whole metres per second
    if sp.get("h_int"):
        h = numpy.round(h).astype("int64")
        for i in range(1, N):
            if h[i] < h[i - 1] or (h[i] == h[i - 1] and not sp.get("dup")):
                h[i] = h[i - 1] + 1
    if sp.get("strided"):
        def strided(a):
            if a is None:
                return None
            big = numpy.zeros(2 * len(a), dtype=a.dtype)
            big[::2] = a
            return big[::2]
        h, p, w = strided(h), strided(p), strided(w)
    if sp.get("readonly"):
        for a in (h, p, w):
            if a is not None:
                a.setflags(write=False)
    return h, p, w


class ChoiceStub(object):
    """numpy.random.choice replaced by 'any legal outcome': validates the request, the plan picks the outcome"""

    def __init__(self, policy, arg, res):
        import numpy
        self.np = numpy
        self.policy, self.arg, self.res = policy, int(arg), res
        self.real = numpy.random.choice
        self.calls = 0

    def __call__(self, a, size=None, replace=True, p=None):
        numpy = self.np
        self.calls += 1
        self.res.count("fault.choice_stub_calls")
        pool = numpy.arange(a) if numpy.ndim(a) == 0 else numpy.asarray(a)
        k = int(numpy.prod(size)) if size is not None else 1
        if not replace and k > len(pool):
            raise ValueError("Cannot take a larger sample than population when 'replace=False'")
        if k == 0:
            return pool[:0].copy()
        pol = self.policy
        if pol == "duplicates_if_allowed":
            if replace:
                out = numpy.repeat(pool[self.arg % len(pool)], k)        # legal when sampling with replacement
                return out if size is not None else out[0]
            pol = "highest"
        if pol == "lowest":
            out = pool[:k]
        elif pol == "highest":
            out = pool[len(pool) - k:]
        elif pol == "adjacent":
            off = self.arg % (len(pool) - k + 1)
            out = pool[off:off + k]
        elif pol == "reversed":
            rs = numpy.random.RandomState(self.arg + self.calls)
            out = numpy.sort(rs.choice(pool, size=k, replace=False))[::-1]
        else:
            rs = numpy.random.RandomState(self.arg * 7919 + self.calls)
            out = rs.choice(pool, size=k, replace=False)
        out = numpy.array(out, copy=True)
        return out if size is not None else out[0]

    def __enter__(self):
        self.np.random.choice = self
        return self

    def __exit__(self, *exc):
        self.np.random.choice = self.real
        return False


def _rel(a, b):
    return abs(a - b) / max(abs(a), abs(b), 1e-300)


def group_cost(h, p, lo, hi):
    """min over j in [lo,hi) of sum_i p_i |h_i - h_j| and the minimising height(s)"""
    import numpy
    hh, pp = h[lo:hi], p[lo:hi]
    c = (pp[None, :] * numpy.abs(hh[None, :] - hh[:, None])).sum(1)
    return float(c.min()), c


def split_cost(h, p, bounds):
    return sum(group_cost(h, p, bounds[i], bounds[i + 1])[0] for i in range(len(bounds) - 1))


def check_og(res, si, h, p, L, out, hist_cls, stub):
    import numpy
    tag = "og"
    if not (isinstance(out, tuple) and len(out) == 2):
        res.violate("shape", "C18:optimal_grouping:wrong-return", "optimal_grouping returned %r" % (type(out),), si)
        return
    hL, cL = numpy.asarray(out[0], dtype=float), numpy.asarray(out[1], dtype=float)
    N = len(p)
    if hL.shape != (L,) or cL.shape != (L,):
        res.violate("count", "C18:optimal_grouping:not-L-layers%s" % (":L=1" if L == 1 else ""),
                    "optimal_grouping(N=%d, L=%d) returned %d heights and %d strengths" % (N, L, hL.size, cL.size), si)
        return
    if not (cL >= 0).all() or not numpy.isfinite(cL).all():
        res.violate("sign", "C18:optimal_grouping:negative-or-nonfinite-strength", "strengths %s" % cL, si)
    if _rel(float(cL.sum()), float(p.sum())) > 1e-12:
        res.violate("conservation", "C18:optimal_grouping:total-strength-not-conserved",
                    "optimal_grouping(N=%d, L=%d): sum of output strengths %.17g != sum of input %.17g (rel %.2e)"
                    % (N, L, cL.sum(), p.sum(), _rel(float(cL.sum()), float(p.sum()))), si)
        return
    hs = set(float(x) for x in h)
    if any(float(x) not in hs for x in hL):
        res.violate("heights", "C18:optimal_grouping:height-not-an-input-height", "returned heights %s are not all input heights" % hL, si)
        return
    if L > 1 and not (numpy.diff(hL) >= 0).all():
        res.violate("heights", "C18:optimal_grouping:heights-not-increasing", "returned heights %s" % hL, si)
        return
    if L > 1 and not (numpy.diff(hL) > 0).all() and len(set(float(x) for x in h)) == len(h):
        res.violate("heights", "C18:optimal_grouping:heights-not-increasing", "returned heights %s repeat although the input heights are distinct" % hL, si)
        return
    if not (p > 0).all():
        res.count("oracle.og_calls_checked")
        res.count("probe.og_profile_with_zero_strength_layers")
        return          # cumulative sums have plateaus: the grouping cannot be reconstructed from the strengths
    # reconstruct the contiguous grouping from the strengths
    cp = numpy.concatenate([[0.0], numpy.cumsum(p)])
    cc = numpy.cumsum(cL)
    bounds = [0]
    tot = float(p.sum())
    ok = True
    for g in range(L - 1):
        j = int(numpy.argmin(numpy.abs(cp - cc[g])))
        if abs(cp[j] - cc[g]) > 1e-9 * tot or j <= bounds[-1] or j >= N:
            ok = False
            break
        bounds.append(j)
    bounds.append(N)
    if not ok:
        res.violate("grouping", "C18:optimal_grouping:strengths-are-not-sums-of-contiguous-nonempty-groups",
                    "optimal_grouping(N=%d, L=%d): the returned strengths are not the sums of L contiguous non-empty groups of the input" % (N, L), si)
        return
    for g in range(L):
        if not (h[bounds[g]] <= hL[g] <= h[bounds[g + 1] - 1]):
            res.violate("heights", "C18:optimal_grouping:height-outside-its-group", "layer %d height %s outside group [%s, %s]"
                        % (g, hL[g], h[bounds[g]], h[bounds[g + 1] - 1]), si)
            return
    # cost of the returned solution (each layer placed at the returned height) vs the equal split
    cost = 0.0
    for g in range(L):
        lo, hi = bounds[g], bounds[g + 1]
        cost += float((p[lo:hi] * numpy.abs(h[lo:hi] - hL[g])).sum())
    eq1 = [0] + [int(x) + 1 for x in numpy.linspace(0, N, L + 1, dtype=int)[1:-1]] + [N]
    eq2 = [0] + list(numpy.cumsum([len(x) for x in numpy.array_split(numpy.arange(N), L)]))
    ref = []
    for b in (eq1, eq2):
        if len(set(b)) == len(b) and b[-1] == N:
            ref.append(split_cost(h, p, b))
    if ref and cost > max(ref) * (1 + 1e-9) + 1e-300:
        res.violate("cost", "C18:optimal_grouping:cost-worse-than-equal-split",
                    "optimal_grouping(N=%d, L=%d, history %s, stub %s): cost %.6e of the returned grouping exceeds the equal-split cost %.6e"
                    % (N, L, hist_cls, stub, cost, max(ref)), si)
    res.count("oracle.og_calls_checked")


def check_eq(res, si, h, p, w, L, out):
    import numpy
    N = len(p)
    if w is not None:
        hL, cL, wL = [numpy.asarray(x, dtype=float) for x in out]
    else:
        hL, cL = [numpy.asarray(x, dtype=float) for x in out]
        wL = None
    if hL.shape != (L,) or cL.shape != (L,):
        res.violate("count", "C18:equivalent_layers:not-L-layers", "equivalent_layers(N=%d, L=%d) returned %d layers" % (N, L, cL.size), si)
        return
    if not (cL >= 0).all():
        res.violate("sign", "C18:equivalent_layers:negative-strength", "strengths %s" % cL, si)
    if _rel(float(cL.sum()), float(p.sum())) > 1e-12:
        res.violate("conservation", "C18:equivalent_layers:total-strength-not-conserved",
                    "equivalent_layers(N=%d, L=%d, h in [%.17g, %.17g]): output strengths sum to %.6e, input to %.6e (rel %.2e): a layer was dropped"
                    % (N, L, h.min(), h.max(), cL.sum(), p.sum(), _rel(float(cL.sum()), float(p.sum()))), si)
        return
    nz = cL > 0
    m_in = float((p * h ** (5. / 3)).sum())
    m_out = float((cL[nz] * hL[nz] ** (5. / 3)).sum())
    if _rel(m_in, m_out) > 1e-10:
        res.violate("moment", "C18:equivalent_layers:height-moment-not-conserved", "5/3 height moment in %.10e out %.10e" % (m_in, m_out), si)
    if wL is not None:
        w_in = float((p * w ** (5. / 3)).sum())
        w_out = float((cL[nz] * wL[nz] ** (5. / 3)).sum())
        if _rel(w_in, w_out) > 1e-10:
            res.violate("moment", "C18:equivalent_layers:wind-moment-not-conserved", "5/3 wind moment in %.10e out %.10e" % (w_in, w_out), si)
    if not nz.all():
        res.count("probe.equivalent_layers_empty_slab")
    res.count("oracle.eq_calls_checked")


def gctm_objective(hx, cx, L, mom0, hs=10000., cs=100e-15):
    import numpy
    m = numpy.array([(cx / cs * (hx / hs) ** i).sum() for i in range(2 * L - 1)])
    return float(((m - mom0) ** 2).sum())


def _perm(spec, N):
    import numpy
    if spec is None:
        return None
    if spec == "desc":
        return numpy.arange(N)[::-1]
    return numpy.random.RandomState(int(spec) % (2 ** 32)).permutation(N)


def _independent_gctm(g_h, g_c, L, mom0, hs=10000., cs=100e-15):
    import numpy
    from scipy.optimize import minimize
    x0 = numpy.hstack([g_h / hs, g_c / cs])

    def f(x):
        m = numpy.array([(x[L:] * x[:L] ** i).sum() for i in range(2 * L - 1)])
        return float(((m - mom0) ** 2).sum())
    try:
        with numpy.errstate(all="ignore"):
            r = minimize(f, x0, bounds=[(0, None)] * (2 * L), method="L-BFGS-B")
        return float(r.fun) if numpy.isfinite(r.fun) else None
    except Exception:
        return None


def _execute(plan, keep_log=False):
    import numpy
    mods = screens.warm()
    pc = mods["pc"]
    res = core.Result()
    log = core.EventLog(keep_log)
    seams.reset_ambient(plan["ambient"])
    profs = [build_profile(sp) for sp in plan["profiles"]]
    hist = []           # classes of what happened to the global RNG since the start
    held = []           # arrays returned by earlier calls: they belong to the caller and must never change afterwards

    def hold(si_, name, out_):
        for k_, a_ in enumerate(out_ if isinstance(out_, (tuple, list)) else [out_]):
            if isinstance(a_, numpy.ndarray):
                held.append((si_, name, k_, a_, screens.abytes(a_)))

    def check_held(si_, name_now):
        for (s0, n0, k0, a0, b0) in held:
            if screens.abytes(a0) != b0:
                res.violate("hidden-state", "C18:%s:returned-arrays-changed-by-a-later-call" % n0,
                            "output %d of %s (step %d) was modified when %s ran at step %d: the library kept and reused the array it had returned"
                            % (k0, n0, s0, name_now, si_), si_)
                held[:] = [h_ for h_ in held if h_[3] is not a0]
                break

    for si, st in enumerate(plan["steps"]):
        res.steps += 1
        if "noise" in st:
            seams.apply_noise(st["noise"], None, res)
            hist.append(st["noise"]["k"])
            log.add(si, "noise", st["noise"]["k"], seams.np_global_digest())
            continue
        pi = st["prof"] % len(profs)
        h, p, w = profs[pi]
        sp = plan["profiles"][pi]
        N = len(p)
        if st["op"] == "bad_call":
            try:
                with numpy.errstate(all="ignore"):
                    if st["how"] == "float_R":
                        pc.optimal_grouping(1.5, max(1, N // 2), h, p)
                    elif st["how"] == "L_ge_N":
                        pc.optimal_grouping(2, N + 3, h, p)
                    elif st["how"] == "L_zero":
                        pc.optimal_grouping(1, 0, h, p)
                    else:
                        pc.equivalent_layers(h, p, 0)
                log.add(si, "bad_call", st["how"], "returned")
            except BaseException as e:
                log.add(si, "bad_call", st["how"], type(e).__name__)
            res.count("fault.call_that_raises")
            hist.append("bad")
            continue
        if st["op"] == "refill":
            h2, p2, w2 = build_profile(dict(sp, fill=st["fill"], readonly=False))
            for a in (p, h):
                if not a.flags.writeable:
                    a.setflags(write=True)
            p[:] = p2                          # same objects, new contents
            if st.get("which") == "hp" and sp["kind"] in ("irregular", "clustered"):
                h[:] = h2
            if sp.get("readonly"):
                p.setflags(write=False)
                h.setflags(write=False)
            res.count("fault.profile_arrays_refilled_in_place")
            hist.append("refill")
            log.add(si, "refill", pi, core.harr(p))
            continue
        L = max(1, min(int(st["L"]), N - 1))
        hist_cls = "-".join(hist[-3:]) if hist else "fresh"
        if st["op"] == "og":
            stub = st.get("stub")
            res.count("op.optimal_grouping")
            try:
                if stub:
                    with ChoiceStub(stub["policy"], stub["arg"], res):
                        out = pc.optimal_grouping(int(st["R"]), L, h, p)
                else:
                    out = pc.optimal_grouping(int(st["R"]), L, h, p)
            except Exception as e:
                res.violate("raised", "C18:optimal_grouping:raised:%s" % type(e).__name__,
                            "optimal_grouping(R=%d, L=%d, N=%d, history %s, stub %s) raised %s: %s"
                            % (st["R"], L, N, hist_cls, stub, type(e).__name__, str(e)[:150]), si)
                log.add(si, "og-raised", type(e).__name__)
                hist.append("og")
                continue
            log.add(si, "og", pi, L, st["R"], core.harr(numpy.asarray(out[0], dtype=float)), core.harr(numpy.asarray(out[1], dtype=float)))
            check_og(res, si, h, p, L, out, hist_cls, stub["policy"] if stub else None)
            check_held(si, "optimal_grouping")
            hold(si, "optimal_grouping", out)
            if hist:
                res.sig("og", N, L, sp["kind"], hist_cls, stub["policy"] if stub else None, st["R"] > 0)
            if st["R"] > 0:
                res.count("probe.restarts_consumed_global_rng")
            hist.append("og")
        elif st["op"] == "eq":
            res.count("op.equivalent_layers")
            ww = w if st.get("wind") else None
            # equivalent_layers does not ask for sorted heights: the caller's layer order is arbitrary
            order = _perm(st.get("perm"), N)
            if order is not None:
                h, p, ww = h[order], p[order], (ww[order] if ww is not None else None)
                res.count("fault.layers_not_in_ascending_order")
            try:
                with numpy.errstate(all="ignore"):
                    out = pc.equivalent_layers(h, p, L, ww)
            except Exception as e:
                res.violate("raised", "C18:equivalent_layers:raised:%s" % type(e).__name__, "equivalent_layers(N=%d, L=%d) raised %s" % (N, L, e), si)
                continue
            log.add(si, "eq", pi, L, [core.harr(numpy.asarray(x)) for x in out])
            check_eq(res, si, h, p, ww, L, out)
            check_held(si, "equivalent_layers")
            hold(si, "equivalent_layers", out)
            if hist:
                res.sig("eq", N, L, sp["kind"], bool(ww is not None))
            hist.append("eq")
        else:
            # GCTM: only when the L equal-thickness slabs are all non-empty (its starting guess needs that)
            order = _perm(st.get("perm"), N)
            if order is not None:
                h, p = h[order], p[order]
            un = st.get("units") or {"h": 1.0, "p": 1.0}
            h, p = h * un["h"], p * un["p"]
            hs, cs = 10000. * un["h"], 100e-15 * un["p"]
            if st.get("units"):
                res.count("fault.gctm_called_in_other_units")
            with numpy.errstate(all="ignore"):
                try:
                    g_h, g_c = pc.equivalent_layers(h, p, L)[:2]
                except Exception:
                    continue
            if not (numpy.isfinite(g_h).all() and (numpy.asarray(g_c) > 0).all() and _rel(float(numpy.sum(g_c)), float(p.sum())) < 1e-12):
                res.count("probe.gctm_skipped_empty_slab")
                log.add(si, "gctm-skipped")
                continue
            res.count("op.GCTM")
            try:
                with numpy.errstate(all="ignore"):
                    out = pc.GCTM(h, p, L, hs, cs) if st.get("units") else pc.GCTM(h, p, L)
            except Exception as e:
                res.violate("raised", "C18:GCTM:raised:%s" % type(e).__name__, "GCTM(N=%d, L=%d) raised %s" % (N, L, e), si)
                continue
            oh, oc = numpy.asarray(out[0], dtype=float), numpy.asarray(out[1], dtype=float)
            log.add(si, "gctm", pi, L, core.harr(oh), core.harr(oc))
            check_held(si, "GCTM")
            hold(si, "GCTM", out)
            if oh.shape != (L,) or oc.shape != (L,):
                res.violate("count", "C18:GCTM:not-L-layers", "GCTM(N=%d, L=%d) returned %d layers" % (N, L, oc.size), si)
                continue
            if not (oc >= 0).all() or not (oh >= 0).all():
                res.violate("sign", "C18:GCTM:negative-strength-or-height", "GCTM returned %s %s" % (oh, oc), si)
            mom0 = numpy.array([(p / cs * (h / hs) ** i).sum() for i in range(2 * L - 1)])
            f0 = gctm_objective(numpy.asarray(g_h, dtype=float), numpy.asarray(g_c, dtype=float), L, mom0, hs, cs)
            f1 = gctm_objective(oh, oc, L, mom0, hs, cs)
            # 'to optimiser accuracy': an independent L-BFGS-B run (checker's own objective, numerical gradient) from the same
            # starting guess shows how far the objective can be reduced; the library must get within a wide margin of it
            f_ind = _independent_gctm(numpy.asarray(g_h, dtype=float), numpy.asarray(g_c, dtype=float), L, mom0, hs, cs)
            if f_ind is not None and f1 > max(1000.0 * f_ind, 0.01 * f0) and f0 > 0:
                res.violate("objective", "C18:GCTM:did-not-optimise",
                            "GCTM(N=%d, L=%d, %s heights): moment mismatch %.3e at the result (start %.3e) although an independent "
                            "optimiser from the same start reaches %.3e" % (N, L, sp["kind"], f1, f0, f_ind), si)
            if not (f1 <= f0 * (1 + 1e-9) + 1e-300):
                res.violate("objective", "C18:GCTM:objective-above-starting-point",
                            "GCTM(N=%d, L=%d): moment mismatch %.6e at the result exceeds %.6e at the equivalent-layers starting guess" % (N, L, f1, f0), si)
            res.count("oracle.gctm_calls_checked")
            if hist:
                res.sig("gctm", N, L, sp["kind"])
            hist.append("gctm")
    res.digest = log.digest()
    res.sched_digest = log.full_digest()
    if keep_log:
        res.events = log.events
    return res


def simplify(plan):
    import copy
    used = sorted(set(st["prof"] % len(plan["profiles"]) for st in plan["steps"] if "prof" in st))
    if used and len(used) < len(plan["profiles"]):
        c = copy.deepcopy(plan)
        c["profiles"] = [plan["profiles"][u] for u in used]
        for st in c["steps"]:
            if "prof" in st:
                st["prof"] = used.index(st["prof"] % len(plan["profiles"]))
        yield c
    for i, st in enumerate(plan["steps"]):
        if st.get("stub"):
            c = copy.deepcopy(plan)
            c["steps"][i]["stub"] = None
            yield c
        if st.get("op") == "og" and st.get("R", 0) > 0:
            c = copy.deepcopy(plan)
            c["steps"][i]["R"] = 0
            yield c
    for i, sp in enumerate(plan["profiles"]):
        if sp["decades"]:
            c = copy.deepcopy(plan)
            c["profiles"][i]["decades"] = 0
            yield c
        if sp["wind"]:
            c = copy.deepcopy(plan)
            c["profiles"][i]["wind"] = False
            for st in c["steps"]:
                if st.get("op") == "eq" and st["prof"] % len(plan["profiles"]) == i:
                    st["wind"] = False
            yield c


def execute(plan, keep_log=False):
    """every pool or executor the library may create while this plan runs is a simulated one (thread pools under the baton
    scheduler), so that concurrency introduced into these code paths is decided by the plan and replays"""
    from sim import simpool
    kern = simpool.Kernel(None, None)
    kern.__enter__()
    try:
        pool = plan.get("pool") or {}
        kern.configure(pool.get("sched"), pool.get("mode", "inproc"))
        return _execute(plan, keep_log)
    finally:
        kern.__exit__(None, None, None)
