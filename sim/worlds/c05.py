"""
C05 - the infinite screen evolves by exactly one row per step, for any history (DESIGN.md section 5).

Two kinds of run:
 history    : seeded op histories (add_row / read / print / hold / ambient noise) on 1-3 screens of both
              variants, judged against a shift-register reference model and a read-free twin.
 stationary : the von Karman instance's random stream is put behind a seam (ScriptedGenerator) and fed
              zeros and unit impulses; the real add_row then emits the impulse responses of the recursion,
              from which stability and the stationary covariance follow exactly (no sampling noise).
"""
import io

from sim import core, seams, screens

ID = "C05"

RULE = ("history runs: one seeded history of 5-200 ops (add_row, several kinds of read, repr/str/print with perturbed numpy print options, held "
        "views, ambient noise) interleaved over 1-3 infinite screens (von Karman and Kolmogorov/Fried, requested sizes that differ from the "
        "internal size, stencil depth 1-4, n_columns 1-4); distinct_nontrivial counts distinct normalised op sequences (op kinds with screen ids "
        "renamed by first appearance and variant/size class attached) that contain at least one read or print between two add_row steps of the "
        "same screen. stationary runs: one von Karman configuration each (nx 4-24, n_columns 1-4, L0/pixel 3-60), counted as distinct by "
        "configuration; non-trivial when the impulse response needed more than 10 steps to decay.")

COMPONENTS = {
    "real": ["aotools.turbulence.infinitephasescreen (PhaseScreenVonKarman, PhaseScreenKolmogorov: constructor, add_row, scrn, __repr__)",
             "aotools.turbulence.phasescreen.ft_phase_screen (initial screen)", "aotools.turbulence.turb.phase_covariance (inside the constructor)",
             "numpy / scipy.linalg / numba kernel"],
    "stub": ["stationary runs only: the Gaussian draw methods of the injected numpy Generator (scripted zeros / unit impulses)",
             "OS entropy and clock -> simulated", "theoretical von Karman covariance: independent float64 implementation in the checker"],
}

ASSUMPTIONS = [
    "only public names are used: constructor parameters, add_row(), .scrn, repr/str",
    "reads and prints happen on the primary only; equality with the read-free twin is exactly 'reading never alters the screen or the random stream'",
    "stationary covariance is compared at lags 0..n_columns (the stencil window); beyond it the theory itself predicts a mismatch",
    "tolerance for the stationary covariance is 1e-5 of the variance: aotools evaluates the covariance at float32-rounded separations (observed error <= 4e-7)",
    "stability budget: impulse responses must fall below 1e-13 of their peak within 12000 steps (calibrated worst case 2242 steps)",
    "the property makes no stability claim for the Kolmogorov/Fried variant",
]

T_MAX = 12000
READ_KINDS = ["attr", "array", "sum", "row_copy", "minmax", "iter", "tolist", "isfinite"]
PRINT_KINDS = ["repr", "str", "format", "print", "array_str"]


def warm():
    return screens.warm()


def sizes(tier):
    if tier == "thorough":
        return {"runs": 120000, "block": 200, "det": 64, "det_fresh": 8, "timeout": 6500, "stationary_every": 8}
    return {"runs": 3200, "block": 40, "det": 24, "det_fresh": 6, "timeout": 900, "stationary_every": 8}


# ----------------------------------------------------------------------------------------------
def gen_plan(rng, tier, index=0):
    if index % sizes(tier)["stationary_every"] == 3:
        p = screens.gen_params(rng.sub("vk"), "VK")
        # decoys: other instances created earlier in the same process whose parameters differ from the analysed
        # configuration in exactly one respect (instances must not share anything that depends on it)
        r = rng.sub("decoy")
        decoys = []
        for _ in range(r.weighted([(0, 3), (1, 4), (2, 2)])):
            what = r.choice(["r0", "L0", "px", "ncol", "nx", "seed_only", "kol"])
            q = dict(p)
            if what == "r0":
                q["r0"] = round(p["r0"] * r.choice([0.25, 0.5, 2.0, 3.0]), 5)
            elif what == "L0":
                q["L0"] = round(p["L0"] * r.choice([0.5, 1.5, 2.0]), 5)
            elif what == "px":
                q["px"] = round(p["px"] * r.choice([0.5, 2.0]), 5)
            elif what == "ncol":
                q["ncol"] = 1 + (p["ncol"] % min(4, p["nx"]))
            elif what == "nx":
                q["nx"] = max(4, p["nx"] + r.choice([-1, 1, 3]))
                q["ncol"] = min(q["ncol"], q["nx"])
            decoys.append({"what": what, "params": q, "seed": r.randrange(1000), "rows": r.randint(0, 5)})
        return {"mode": "stationary", "params": p, "decoys": decoys, "init_seed": rng.randrange(2 ** 31), "numba_threads": rng.randint(1, 4),
                "steps": None}
    if index % 25 == 7:
        # an outer scale far beyond the screen: the parameter region where the covariance matrix is close to singular.
        # Either the constructor refuses the parameters (fine) or the screen must stay finite for a long run of rows
        r = rng.sub("extreme")
        kind = r.choice(["VK", "KOL"])
        px = round(r.logu(0.01, 0.3), 4)
        p = {"nx": r.choice([5, 8, 9, 12, 16, 17]), "px": px, "r0": round(r.logu(0.05, 1.0), 4), "L0": round(px * r.logu(1e3, 1e8), 3)}
        if kind == "VK":
            p["ncol"] = r.randint(1, 4)
        else:
            p["slf"] = r.randint(1, 4)
        return {"mode": "extreme", "kind": kind, "params": p, "seed": r.randrange(2 ** 31), "rows": 1200, "numba_threads": rng.randint(1, 4),
                "steps": None}
    n_scr = rng.weighted([(1, 5), (2, 3), (3, 1)])
    scr = []
    for i in range(n_scr):
        r = rng.sub("scr", i)
        kind = r.choice(["VK", "KOL"])
        p = screens.gen_params(r, kind, small=r.chance(0.7), big=(tier == "thorough" and r.chance(0.15)))
        seed = r.weighted([(r.choice([0, 1, 7, 2 ** 32 + 5, r.randrange(2 ** 31)]), 6), ({"gen": r.randrange(2 ** 31)}, 3), ("none", 1)])
        scr.append({"kind": kind, "params": p, "seed": seed})
    r = rng.sub("hist")
    length = r.weighted([(r.randint(5, 20), 5), (r.randint(20, 60), 3), (r.randint(100, 200), 1)]
                        + ([(r.randint(400, 1500), 0.5)] if tier == "thorough" else []))
    mix = r.choice([{"add_row": 6, "read": 2, "print": 1, "hold": 1.0, "noise": 1, "clone": 0.4, "restart": 0.3, "peek": 0.2},
                    {"add_row": 3, "read": 3, "print": 3, "hold": 1.5, "noise": 2, "clone": 0.6, "restart": 0.5, "peek": 0.5},
                    {"add_row": 10, "read": 0.5, "print": 0.2, "hold": 0.6, "noise": 0.2, "clone": 0.2, "restart": 0.1}])
    steps = []
    faulty = rng.sub("faulty").chance(0.3)           # a third of the programs meet failing allocations
    for _ in range(length):
        op = r.weighted(list(mix.items()))
        s = r.randrange(n_scr)
        if op == "add_row":
            st = {"op": "add_row", "s": s}
            if faulty and r.sub("fault", len(steps)).chance(0.08):
                st["fault"] = r.sub("fault-n", len(steps)).randint(0, 3)     # the n-th allocation inside this add_row fails
            steps.append(st)
        elif op == "read":
            steps.append({"op": "read", "s": s, "how": r.choice(READ_KINDS)})
        elif op == "print":
            steps.append({"op": "print", "s": s, "how": r.choice(PRINT_KINDS)})
        elif op == "restart":
            steps.append({"op": "restart", "s": s})
        elif op == "peek":
            steps.append({"op": "peek", "s": s})
        elif op == "clone":
            # checkpoint: from here on the caller works with a copy of the screen (pickle round trip / deepcopy)
            steps.append({"op": "clone", "s": s, "how": r.choice(["pickle", "deepcopy"])})
        elif op == "hold":
            steps.append({"op": r.choice(["hold", "check_hold"]), "s": s})
        else:
            k = r.weighted([("np_seed", 3), ("np_draw", 2), ("py_seed", 1), ("clock", 1), ("printopts", 2), ("gc", 0.5),
                            ("np_default_rng", 1), ("other_screen", 2), ("numba_threads", 1), ("fork", 1), ("failing_call", 1)])
            if k == "other_screen":
                steps.append({"noise": {"k": "other_screen", "like": s, "rows": r.randint(0, 3)}})
            elif k == "printopts":
                steps.append({"noise": {"k": k, "p": r.randint(1, 6), "t": r.randint(2, 20), "e": r.randint(1, 3)}})
            elif k == "clock":
                steps.append({"noise": {"k": k, "v": r.choice([0.001, 1.0, 3600.0, -5.0])}})
            elif k == "np_draw":
                steps.append({"noise": {"k": k, "v": r.randint(1, 50)}})
            elif k == "numba_threads":
                steps.append({"noise": {"k": k, "v": r.randint(1, 4)}})
            else:
                steps.append({"noise": {"k": k, "v": r.choice([0, 1, 42, r.randrange(2 ** 32)]), "n": r.randint(1, 8)}})
    from sim.worlds import c03
    return {"mode": "history", "ambient": rng.randrange(2 ** 31), "entropy": rng.randrange(2 ** 62), "numba_threads": rng.randint(1, 4),
            "pool": {"mode": "inproc", "sched": c03.gen_sched(rng.sub("pool"))}, "screens": scr, "steps": steps}


def sample_view(plan):
    return plan


# ----------------------------------------------------------------------------------------------
def _do_read(s, how):
    import numpy
    v = s.scrn
    if how == "attr":
        return None
    if how == "array":
        return numpy.array(v)
    if how == "sum":
        return float(v.sum())
    if how == "row_copy":
        return v[0].copy()
    if how == "minmax":
        return (float(v.min()), float(v.max()))
    if how == "iter":
        return [float(r[0]) for r in v]
    if how == "tolist":
        return v.tolist()
    if how == "isfinite":
        return bool(numpy.isfinite(v).all())
    raise ValueError(how)


def _do_print(s, how):
    import numpy
    if how == "repr":
        return repr(s)
    if how == "str":
        return str(s)
    if how == "format":
        return "{}".format(s) + "%s" % (s,)
    if how == "print":
        buf = io.StringIO()
        print(s, file=buf)
        print(s.scrn, file=buf)
        return buf.getvalue()
    if how == "array_str":
        return numpy.array_str(s.scrn) + numpy.array_repr(s.scrn)
    raise ValueError(how)


def execute_extreme(plan, keep_log=False):
    import numpy
    res = core.Result()
    log = core.EventLog(keep_log)
    screens.warm()
    seams.reset_ambient(0, plan.get("numba_threads", 1))
    p, kind = plan["params"], plan["kind"]
    ratio = p["L0"] / p["px"]
    cls = ":outer-scale>=1e4-pixels" if ratio >= 1e4 else ""
    beyond = ratio >= 1e5          # far beyond the point where the unchanged constructor gives up (it accepts ~1 in 30000 there)
    if beyond:
        res.count("extreme.beyond.configs")
    try:
        with numpy.errstate(all="ignore"):
            s = screens.construct_infinite(kind, p, plan["seed"])
    except Exception as e:
        res.count("extreme.constructor_refused")
        log.add("extreme", "refused", type(e).__name__)
        res.digest = log.digest()
        res.sched_digest = log.full_digest()
        return res
    res.count("extreme.constructed.%s" % kind)
    if beyond:
        res.count("extreme.beyond.accepted")
        if kind == "VK":
            # stability probe (scripted randomness: zeros and one unit impulse): a stable recursion lets the impulse response
            # die out; one that still grows between steps 1500, 3000 and 6000 is unstable. Feeds the aggregate oracle only.
            res.count("extreme.beyond.vk_accepted")
            try:
                sc = _Script(p["nx"], p["nx"] // 2)
                with numpy.errstate(all="ignore"):
                    s2 = screens.construct_infinite(kind, p, seams.ScriptedGenerator(sc, 0))
                    m = []
                    for t in range(6000):
                        m.append(float(numpy.abs(s2.add_row()[0]).max()))
                        res.steps += 1
                if not sc.unexpected and sc.row_draws == len(m) and max(m) > 0:
                    res.count("extreme.beyond.vk_probed")
                    if not numpy.isfinite(m[-1]) or (m[-1] > 1.005 * m[2999] and m[2999] > m[1499]):
                        res.count("extreme.beyond.vk_impulse_response_growing")
                        log.add("extreme", "growing", p["nx"])
            except Exception:
                res.count("extreme.beyond.vk_probe_raised")
    N = p["nx"]
    prev = numpy.array(s.scrn, copy=True)
    if not numpy.isfinite(prev).all():
        res.violate("finite", "C05:non-finite-values:%s:initial-screen" % kind, "%s screen %s: non-finite initial screen" % (kind, p), -1)
    with numpy.errstate(all="ignore"):
        for i in range(plan["rows"]):
            try:
                cur = s.add_row()
            except Exception as e:
                res.violate("raised", "C05:add_row-raised:%s:%s" % (kind, type(e).__name__),
                            "%s screen %s: add_row #%d raised %s: %s" % (kind, p, i + 1, type(e).__name__, str(e)[:150]), i)
                break
            res.steps += 1
            if cur.shape != (N, N):
                res.violate("shape", "C05:exposed-shape-wrong:%s" % kind, "shape %s after %d rows (%s)" % (cur.shape, i + 1, p), i)
                break
            if not numpy.isfinite(cur).all():
                # the known divergence is exponential growth that needs several hundred rows to overflow; non-finite values
                # within the first rows are something else
                early = ":within-the-first-30-rows" if i < 30 else ""
                res.violate("finite", "C05:non-finite-values:%s%s%s" % (kind, cls if not early else "", early),
                            "%s screen %s (L0/pixel = %.3g): non-finite values after %d rows" % (kind, p, p["L0"] / p["px"], i + 1), i)
                if beyond and not early:
                    res.count("extreme.beyond.diverged")
                break
            if screens.abytes(cur[1:]) != screens.abytes(prev[:-1]):
                res.violate("shift", "C05:not-a-one-row-shift:%s" % kind, "after add_row #%d (%s)" % (i + 1, p), i)
                break
            prev = numpy.array(cur, copy=True)
    res.sig("extreme", kind, N, int(numpy.log10(ratio)))
    log.add("extreme", kind, core.harr(prev), res.steps)
    res.digest = log.digest()
    res.sched_digest = log.full_digest()
    return res


def _execute(plan, keep_log=False):
    if plan.get("mode") == "stationary":
        return execute_stationary(plan, keep_log)
    if plan.get("mode") == "extreme":
        return execute_extreme(plan, keep_log)
    if plan.get("mode") == "aggregate":
        return execute_aggregate(plan, keep_log)
    import numpy
    res = core.Result()
    log = core.EventLog(keep_log)
    screens.warm()
    seams.reset_ambient(plan["ambient"], plan.get("numba_threads", 1))
    specs = plan["screens"]
    n = len(specs)
    canon, names = [], {}

    alloc = seams.AllocFault()
    alloc.install()
    try:
        return _execute_history(plan, keep_log, res, log, specs, n, canon, names, alloc)
    finally:
        alloc.uninstall()


def _execute_history(plan, keep_log, res, log, specs, n, canon, names, alloc):
    import numpy
    with seams.SimEnv(plan["entropy"]) as env:
        prim, twin, gens, model, rows, twin_rows, held, alive = [], [], [], [], [], [], [], []
        for i, sp in enumerate(specs):
            seed_p = screens.make_seed(sp["seed"])
            seed_t = screens.make_seed(sp["seed"])
            try:
                a = screens.construct_infinite(sp["kind"], sp["params"], seed_p)
                b = screens.construct_infinite(sp["kind"], sp["params"], seed_t) if sp["seed"] != "none" else None
                ok = True
            except Exception as e:
                a = b = None
                ok = False
                res.inconclusive.append("construction raised %s for %s" % (type(e).__name__, sp["kind"]))
            prim.append(a)
            twin.append(b)
            gens.append(seed_p if isinstance(seed_p, numpy.random.Generator) else None)
            alive.append(ok)
            rows.append(0)
            twin_rows.append(0)
            held.append(None)
            model.append(numpy.array(a.scrn, copy=True) if ok else None)
            log.add("init", i, sp["kind"], core.harr(a.scrn) if ok else "raised")
            if ok:
                N = sp["params"]["nx"]
                res.count("screens.%s" % sp["kind"])
                if sp["kind"] == "KOL" and N not in (3, 5, 9, 17, 33):
                    res.count("probe.requested_size_differs_from_internal")
                if a.scrn.shape != (N, N):
                    res.violate("shape", "C05:exposed-shape-wrong:%s:initial" % sp["kind"],
                                "screen %d: .scrn has shape %s right after construction, requested %d" % (i, a.scrn.shape, N), -1)

        def cname(i):
            if i not in names:
                sp = specs[i]
                cls = "x" if (sp["kind"] == "KOL" and sp["params"]["nx"] not in (5, 9, 17)) else "e"
                names[i] = "%s%s%d" % (sp["kind"], cls, len(names))
            return names[i]

        def check_twin(i, si, what):
            """bring the read-free twin to the same number of rows and compare bytes"""
            if twin[i] is None or peeked[i]:
                return
            while twin_rows[i] < rows[i]:
                twin[i].add_row()
                twin_rows[i] += 1
            if screens.abytes(prim[i].scrn) != screens.abytes(twin[i].scrn):
                res.violate("twin", "C05:screen-differs-from-read-free-twin:%s:after-%s" % (specs[i]["kind"], what),
                            "screen %d (%s %s seed %r): after %d rows and a history containing reads/prints the screen differs from a twin "
                            "with the same seed that only ever received add_row" % (i, specs[i]["kind"], specs[i]["params"], specs[i]["seed"], rows[i]), si)

        last_was_read = [False] * n
        consecutive = [0] * n
        peeked = [False] * n
        for si, st in enumerate(plan["steps"]):
            res.steps += 1
            if "noise" in st:
                op = st["noise"]
                if op["k"] == "failing_call":
                    screens.failing_call(op.get("v", 0))
                    res.count("fault.noise.failing_call")
                elif op["k"] == "other_screen":
                    sp = specs[op["like"] % n]
                    try:
                        o = screens.construct_infinite(sp["kind"], sp["params"], screens.make_seed(sp["seed"]) if "gen" not in str(sp["seed"]) else 5)
                        for _ in range(op.get("rows", 0)):
                            o.add_row()
                    except Exception:
                        pass
                    res.count("fault.noise.other_screen")
                else:
                    seams.apply_noise(op, env, res)
                log.add(si, "noise", op["k"])
                canon.append("~" + op["k"])
                # the environment changed: no screen may have
                for i in range(n):
                    if alive[i] and screens.abytes(prim[i].scrn) != screens.abytes(model[i]):
                        res.violate("purity", "C05:screen-changed-without-add_row:%s:noise" % specs[i]["kind"],
                                    "screen %d changed during ambient step %s" % (i, op["k"]), si)
                continue
            i = st["s"] % n
            op = st["op"]
            if not alive[i]:
                log.add(si, "dead", i)
                continue
            s = prim[i]
            sp = specs[i]
            N = sp["params"]["nx"]
            canon.append("%s:%s" % (op if op not in ("read", "print") else op[0] + ":" + st["how"], cname(i)))
            if op == "add_row":
                failed = None
                if st.get("fault") is not None:
                    # injected fault: an allocation inside this add_row fails. The call may raise (or cope); it must leave the screen
                    # as it was or shifted by one proper row, and later steps must work as if nothing had happened
                    alloc.arm(st["fault"])
                    f0 = alloc.fired
                    try:
                        ret = s.add_row()
                    except MemoryError as e:
                        failed = e
                    except Exception as e:
                        failed = e
                    finally:
                        alloc.disarm()
                    if alloc.fired > f0:
                        res.count("fault.allocation_failed_inside_add_row")
                        twin[i] = None                      # the random stream may or may not have advanced: no twin from here on
                        if failed is not None:
                            res.count("fault.add_row_raised_after_injected_failure")
                            consecutive[i] = 0
                            log.add(si, "add_row-fault", i, type(failed).__name__)
                            try:
                                cur = s.scrn
                                okc = cur.shape == (N, N) and numpy.isfinite(cur).all() and (
                                    screens.abytes(cur) == screens.abytes(model[i]) or screens.abytes(cur[1:]) == screens.abytes(model[i][:-1]))
                            except Exception:
                                okc = False
                            if not okc:
                                res.violate("fault", "C05:screen-corrupted-by-a-failed-add_row:%s" % sp["kind"],
                                            "screen %d (%s): an add_row that failed with an injected MemoryError left an exposed screen that is neither "
                                            "the previous one nor the previous one shifted by one row" % (i, sp["kind"]), si)
                                alive[i] = False
                                continue
                            if screens.abytes(cur) != screens.abytes(model[i]):
                                rows[i] += 1
                            model[i] = numpy.array(cur, copy=True)
                            continue
                    elif failed is not None:
                        pass
                    # the fault did not fire (no allocation left to fail) or the library coped: judged like any add_row below
                try:
                    if st.get("fault") is None:
                        ret = s.add_row()
                    elif failed is not None:
                        raise failed
                    s.scrn
                except Exception as e:
                    res.violate("raised", "C05:add_row-raised:%s:%s" % (sp["kind"], type(e).__name__),
                                "screen %d (%s %s): add_row #%d raised %s: %s" % (i, sp["kind"], sp["params"], rows[i] + 1, type(e).__name__, str(e)[:200]), si)
                    log.add(si, "add_row-raised", i, type(e).__name__)
                    alive[i] = False
                    continue
                rows[i] += 1
                consecutive[i] += 1
                cur = s.scrn
                res.count("op.add_row")
                if consecutive[i] == 100:
                    res.count("probe.100_consecutive_rows")
                if last_was_read[i]:
                    res.count("probe.add_row_right_after_read_or_print")
                last_was_read[i] = False
                log.add(si, "add_row", i, core.harr(cur))
                if cur.shape != (N, N):
                    res.violate("shape", "C05:exposed-shape-wrong:%s" % sp["kind"],
                                "screen %d: shape %s after %d rows, requested %dx%d" % (i, cur.shape, rows[i], N, N), si)
                    model[i] = numpy.array(cur, copy=True)
                    continue
                if not numpy.isfinite(cur).all():
                    res.violate("finite", "C05:non-finite-values:%s" % sp["kind"], "screen %d has non-finite values after %d rows" % (i, rows[i]), si)
                if screens.abytes(cur[1:]) != screens.abytes(model[i][:-1]):
                    res.violate("shift", "C05:not-a-one-row-shift:%s" % sp["kind"],
                                "screen %d (%s, %s): after add_row #%d rows 1.. of the exposed screen are not the previous rows 0..N-2 "
                                "(%d of %d entries differ)" % (i, sp["kind"], sp["params"], rows[i],
                                                              int((cur[1:] != model[i][:-1]).sum()), cur[1:].size), si)
                if screens.abytes(cur[0]) == screens.abytes(model[i][0]):
                    res.violate("shift", "C05:new-row-not-newly-generated:%s" % sp["kind"],
                                "screen %d: after add_row #%d row 0 is bit-identical to the previous row 0 (a freshly drawn Gaussian row "
                                "repeats with probability zero)" % (i, rows[i]), si)
                if screens.abytes(ret) != screens.abytes(cur):
                    res.violate("return", "C05:add_row-return-differs-from-scrn:%s" % sp["kind"],
                                "screen %d: add_row() returned something else than .scrn shows" % i, si)
                model[i] = numpy.array(cur, copy=True)
                if held[i] is None and si % 3 == 0:
                    held[i] = (ret, numpy.array(ret, copy=True), rows[i])        # the caller keeps what add_row() returned
                check_twin(i, si, "add_row")
                continue
            if op == "peek":
                # the public get_new_row(): the caller looks at a candidate row without adding it. (On the unchanged tree this draws
                # from the stream, so the add_row-only twin is out of step until the next restart.) The screen must not change.
                consecutive[i] = 0
                try:
                    s.get_new_row()
                except AttributeError:
                    log.add(si, "peek-unavailable", i)
                    continue
                except Exception as e:
                    res.violate("raised", "C05:get_new_row-raised:%s:%s" % (sp["kind"], type(e).__name__), "screen %d: get_new_row() raised %s" % (i, e), si)
                    continue
                peeked[i] = True
                res.count("op.peek_get_new_row")
                log.add(si, "peek", i)
                if screens.abytes(s.scrn) != screens.abytes(model[i]):
                    res.violate("purity", "C05:screen-changed-without-add_row:%s:get_new_row" % sp["kind"],
                                "screen %d changed during get_new_row()" % i, si)
                continue
            consecutive[i] = 0
            gstate = repr(gens[i].bit_generator.state) if gens[i] is not None else None
            try:
                if op in ("read", "print"):
                    out = _do_read(s, st["how"]) if op == "read" else _do_print(s, st["how"])
            except Exception as e:
                res.violate("raised", "C05:%s-raised:%s:%s" % (op, sp["kind"], type(e).__name__),
                            "screen %d: %s(%s) raised %s: %s" % (i, op, st["how"], type(e).__name__, str(e)[:200]), si)
                log.add(si, op + "-raised", i, type(e).__name__)
                continue
            if op == "restart":
                # the public make_initial_screen() starts the screen over (same seed: the same initial screen and rows)
                if not hasattr(s, "make_initial_screen") or sp["seed"] == "none":
                    log.add(si, "restart-skipped", i)
                    continue
                try:
                    s.make_initial_screen()
                    if twin[i] is not None:
                        twin[i].make_initial_screen()
                except Exception as e:
                    res.inconclusive.append("restart raised %s" % type(e).__name__)
                    alive[i] = False
                    continue
                rows[i] = 0
                twin_rows[i] = 0
                if not (isinstance(sp["seed"], dict) and "gen" in sp["seed"]):
                    peeked[i] = False         # a Generator passed as seed is continued, not re-created: its twin stays out of step
                held[i] = None
                res.count("op.restart")
                cur = s.scrn
                log.add(si, "restart", i, core.harr(cur))
                if cur.shape != (N, N):
                    res.violate("shape", "C05:exposed-shape-wrong:%s:after-restart" % sp["kind"], "screen %d: shape %s after make_initial_screen()" % (i, cur.shape), si)
                model[i] = numpy.array(cur, copy=True)
                check_twin(i, si, "restart")
                continue
            if op == "clone":
                import copy
                import pickle
                try:
                    c2 = pickle.loads(pickle.dumps(s)) if st.get("how") == "pickle" else copy.deepcopy(s)
                    c2.scrn
                except Exception as e:
                    # an object that cannot be copied or pickled is not a violation of this property: the caller simply
                    # goes on with the original
                    res.count("op.clone_refused")
                    log.add(si, "clone-refused", i, type(e).__name__)
                    continue
                res.count("op.clone")
                log.add(si, "clone", i, st.get("how"))
                if screens.abytes(c2.scrn) != screens.abytes(model[i]):
                    res.violate("clone", "C05:copy-of-screen-differs:%s:%s" % (sp["kind"], st.get("how")),
                                "screen %d (%s %s): a %s of the screen exposes shape %s / other values than the original %s"
                                % (i, sp["kind"], sp["params"], st.get("how"), c2.scrn.shape, model[i].shape), si)
                else:
                    # the copy carries the whole state (incl. the random stream): it continues exactly like the original would
                    prim[i] = c2
                    s = c2
                    if gens[i] is not None:
                        gens[i] = None
                check_twin(i, si, "clone")
                continue
            if op == "read":
                res.count("op.read")
                last_was_read[i] = True
                log.add(si, "read", i, st["how"], core.hbytes(repr(out).encode()) if not hasattr(out, "dtype") else core.harr(out))
            elif op == "print":
                res.count("op.print")
                last_was_read[i] = True
                log.add(si, "print", i, st["how"])      # the text may contain an object address: not logged
            elif op == "hold":
                held[i] = (s.scrn, numpy.array(s.scrn, copy=True), rows[i])
                res.count("op.hold")
                log.add(si, "hold", i)
            elif op == "check_hold":
                if held[i] is not None:
                    view, copy_, at = held[i]
                    same = screens.abytes(view) == screens.abytes(copy_)
                    res.count("probe.held_view_still_valid" if same else "probe.held_view_changed_later")
                    if not same:
                        res.violate("aliasing", "C05:screen-returned-earlier-was-overwritten:%s" % sp["kind"],
                                    "screen %d (%s %s): the array obtained from .scrn after %d rows no longer holds that screen after %d rows: "
                                    "later steps wrote into an array the caller had been given" % (i, sp["kind"], sp["params"], at, rows[i]), si)
                        held[i] = None
                    if rows[i] - at >= 3:
                        res.count("probe.read_of_held_view_after_3_rows")
                    log.add(si, "check_hold", i, same)     # informational: aliasing is not part of the property
            else:
                raise ValueError(op)
            # a read / print must leave the screen and the random stream alone
            if screens.abytes(s.scrn) != screens.abytes(model[i]):
                res.violate("purity", "C05:screen-changed-without-add_row:%s:%s" % (sp["kind"], op),
                            "screen %d changed during %s(%s)" % (i, op, st.get("how")), si)
                model[i] = numpy.array(s.scrn, copy=True)
            if gstate is not None and repr(gens[i].bit_generator.state) != gstate:
                res.violate("stream", "C05:random-stream-advanced-by-read:%s:%s" % (sp["kind"], op),
                            "screen %d: the injected generator's state changed during %s(%s)" % (i, op, st.get("how")), si)
            check_twin(i, si, op)
        # whatever the caller still holds at the end must still be the screen it was when it was handed out
        for i in range(n):
            if alive[i] and held[i] is not None:
                view, copy_, at = held[i]
                if screens.abytes(view) != screens.abytes(copy_):
                    res.count("probe.held_view_changed_later")
                    res.violate("aliasing", "C05:screen-returned-earlier-was-overwritten:%s" % specs[i]["kind"],
                                "screen %d (%s %s): the array handed out after %d rows no longer holds that screen after %d rows: later "
                                "steps wrote into an array the caller had been given" % (i, specs[i]["kind"], specs[i]["params"], at, rows[i]), len(plan["steps"]))
        res.sim_time = env.advanced

    # distinctness: a read/print between two add_row steps of the same screen
    nontrivial = False
    seen_add, pending = set(), set()
    for c in canon:
        if c.startswith("~"):
            continue
        kind, who = c.split(":")[0], c.split(":")[-1]
        if kind == "add_row":
            if who in pending:
                nontrivial = True
                break
            seen_add.add(who)
        elif kind in ("r", "p") and who in seen_add:
            pending.add(who)
    if nontrivial:
        res.sig("hist", tuple(canon))
    res.digest = log.digest()
    res.sched_digest = log.full_digest()
    if keep_log:
        res.events = log.events
    return res


# ----------------------------------------------------------------------------------------------
# stationary stage: scripted randomness
# ----------------------------------------------------------------------------------------------
class _Script(object):
    def __init__(self, nx, impulse_at=None, init="zero"):
        self.nx = nx
        self.k = impulse_at
        self.init = init
        self.row_draws = 0
        self.unexpected = []

    def __call__(self, i, size):
        import numpy
        if isinstance(size, (tuple, list)) and len(size) == 2:
            return numpy.zeros(size) if self.init == "zero" else None       # initial screen draws
        if isinstance(size, (tuple, list)) and len(size) == 1:
            size = size[0]
        if size == self.nx:
            self.row_draws += 1
            v = numpy.zeros(self.nx)
            if self.k is not None and self.row_draws == 1:
                v[self.k] = 1.0
            return v
        self.unexpected.append(size)
        return None


def execute_stationary(plan, keep_log=False):
    import numpy
    res = core.Result()
    log = core.EventLog(keep_log)
    mods = screens.warm()
    ips = mods["ips"]
    p = plan["params"]
    nx, ncol = p["nx"], p["ncol"]
    seams.reset_ambient(0, plan.get("numba_threads", 1))
    tag = "nx%d-ncol%d" % (nx, ncol)

    def build(script, seed=0):
        g = seams.ScriptedGenerator(script, seed)
        return g, ips.PhaseScreenVonKarman(nx, p["px"], p["r0"], p["L0"], random_seed=g, n_columns=ncol)

    # ---- history first: decoy instances that differ from the analysed configuration in one parameter
    for d in plan.get("decoys", []):
        q = d["params"]
        try:
            if d["what"] == "kol":
                o = ips.PhaseScreenKolmogorov(q["nx"], q["px"], q["r0"], q["L0"], random_seed=d["seed"], stencil_length_factor=2)
            else:
                o = ips.PhaseScreenVonKarman(q["nx"], q["px"], q["r0"], q["L0"], random_seed=d["seed"], n_columns=q["ncol"])
            for _ in range(d["rows"]):
                o.add_row()
            res.count("fault.decoy_instance.%s" % d["what"])
        except Exception:
            res.count("fault.decoy_instance.raised")
    if plan.get("decoys"):
        tag += "-after-" + "+".join(d["what"] for d in plan["decoys"])

    # ---- impulse responses of the real recursion
    H, T_used, unstable, unscriptable = [], 0, None, None
    try:
        for k in range(nx):
            sc = _Script(nx, k)
            g, s = build(sc)
            if s.scrn.any():
                unscriptable = "initial screen is not zero under a zero random stream"
                break
            rows_k, peak = [], 0.0
            for t in range(T_MAX):
                r = numpy.array(s.add_row()[0], copy=True)
                res.steps += 1
                rows_k.append(r)
                m = float(numpy.abs(r).max())
                if not numpy.isfinite(m):
                    unstable = "impulse %d: non-finite row at step %d" % (k, t)
                    break
                peak = max(peak, m)
                if t > 3 and m <= 1e-13 * peak:
                    break
            else:
                unstable = "impulse %d: response still %.3e of its peak after %d steps" % (k, m / peak if peak else 0, T_MAX)
            if sc.unexpected or sc.row_draws != len(rows_k):
                unscriptable = "draw pattern not scriptable (sizes %r, %d row draws for %d rows)" % (sc.unexpected[:3], sc.row_draws, len(rows_k))
                break
            if peak == 0.0:
                unscriptable = "impulse %d has no effect on the new row" % k
                break
            if unstable:
                break
            H.append(numpy.array(rows_k))
            T_used = max(T_used, len(rows_k))
    except Exception as e:
        res.inconclusive.append("stationary stage: construction/stepping raised %s" % type(e).__name__)
        log.add("stationary", "raised", type(e).__name__)
        res.digest = log.digest()
        res.sched_digest = log.full_digest()
        return res
    res.count("stationary.configs")
    if unscriptable:
        res.inconclusive.append("stationary stage inconclusive: " + unscriptable)
        res.count("stationary.inconclusive")
        log.add("stationary", "inconclusive")
        res.digest = log.digest()
        res.sched_digest = log.full_digest()
        return res
    res.sim_time = float(T_used)
    if unstable:
        res.violate("stability", "C05:vk-recursion-not-stable", "%s (params %s)" % (unstable, p), -1)
        log.add("stationary", "unstable")
        res.digest = log.digest()
        res.sched_digest = log.full_digest()
        return res
    res.count("stationary.impulse_responses", nx)
    if T_used > 10:
        res.sig("stationary", nx, ncol, p["px"], p["r0"], p["L0"], tuple(d["what"] for d in plan.get("decoys", [])))
    if T_used > 1000:
        res.count("probe.slow_decay_over_1000_steps")

    # ---- from any starting screen: random start, zero innovations
    sc = _Script(nx, None, init="real")
    g, s = build(sc, plan["init_seed"])
    start = float(numpy.abs(s.scrn).max())
    decayed = False
    for t in range(T_MAX):
        r = s.add_row()[0]
        res.steps += 1
        if float(numpy.abs(r).max()) <= 1e-9 * start:
            decayed = True
            break
    if not decayed and start > 0:
        res.violate("stability", "C05:vk-recursion-does-not-forget-start",
                    "rows still %.3e of the random starting screen after %d zero-innovation steps (params %s)"
                    % (float(numpy.abs(r).max()) / start, T_MAX, p), -1)

    # ---- stationary covariance at lags 0..n_columns, exact: sum_t H_{t+d} H_t^T
    Hm = numpy.zeros((T_used, nx, nx))
    for k, h in enumerate(H):
        Hm[:len(h), :, k] = h
    i, j = numpy.indices((nx, nx))
    worst = 0.0
    flat = Hm.reshape(T_used, nx * nx)
    for d in range(ncol + 1):
        if T_used - d <= 0:
            break
        C = numpy.einsum("tik,tjk->ij", Hm[d:], Hm[:T_used - d])
        theory = seams.vk_covariance(p["px"] * numpy.sqrt(d ** 2 + (i - j) ** 2.0), p["r0"], p["L0"])
        err = float(numpy.abs(C - theory).max() / theory.max())
        worst = max(worst, err)
        log.add("cov", d, "%.3e" % err if err > 1e-5 else "ok")
        if not (err <= 1e-5):
            res.violate("stationary", "C05:vk-stationary-covariance-wrong:lag%s" % ("0" if d == 0 else "k"),
                        "lag %d: stationary covariance of the recursion deviates from the von Karman covariance by %.3e of the variance "
                        "(tolerance 1e-5; params %s)" % (d, err, p), -1)
    res.count("stationary.lags_checked", ncol + 1)
    del flat
    log.add("stationary", tag, T_used)
    res.digest = log.digest()
    res.sched_digest = log.full_digest()
    return res


def _aggregate_violations(stats):
    """aggregate oracle over the far-beyond region (L0 >= 1e5 pixels). There the unchanged constructor refuses the
    parameters (it lets about 1 in 30000 through, which then diverges: part of the open known finding). A tree on which
    more than a few per cent of these parameter sets are accepted AND diverge (or, von Karman, have an impulse response
    that keeps growing) fails for inputs the finding does not describe; a tree that accepts them and stays stable is fine."""
    n, acc, div = stats.get("extreme.beyond.configs", 0), stats.get("extreme.beyond.accepted", 0), stats.get("extreme.beyond.diverged", 0)
    nvk, grow = stats.get("extreme.beyond.vk_accepted", 0), stats.get("extreme.beyond.vk_impulse_response_growing", 0)
    cov = {"parameter_sets": n, "accepted_by_constructor": acc, "accepted_and_diverged": div, "von_karman_accepted": nvk,
           "von_karman_impulse_response_growing": grow}
    out = []
    if grow > max(3, 0.05 * n):
        out.append(("stability", "C05:vk-recursion-not-stable:parameter-sets-beyond-1e5-pixels-accepted-and-unstable",
                    "%d of %d parameter sets with an outer scale >= 1e5 pixels were accepted by the von Karman constructor and have an impulse "
                    "response that is still growing after 6000 rows (the unchanged constructor refuses these parameters)" % (grow, n)))
    if div > max(3, 0.05 * n):
        out.append(("finite", "C05:non-finite-values:parameter-sets-beyond-1e5-pixels-accepted-and-diverging",
                    "%d of %d parameter sets with an outer scale >= 1e5 pixels were accepted by the constructor and diverged to inf/nan "
                    "(the open known finding covers isolated cases, about 1 in 30000)" % (div, n)))
    return cov, out


def extra_stage(tier, base_seed, farm, stats=None, runs=None):
    cov, viol = _aggregate_violations(stats or {})
    out = {"coverage": {"far_beyond_region": cov}, "violations": []}
    if viol:
        # the replay file holds every far-beyond parameter set of this batch; replaying executes them all and applies the same rule
        subs = []
        for i in range(sizes(tier)["runs"]):
            if i % 25 == 7 and i % sizes(tier)["stationary_every"] != 3:
                pl = core.plan_for("C05", base_seed, i, tier)
                if pl.get("mode") == "extreme" and pl["params"]["L0"] / pl["params"]["px"] >= 1e5:
                    subs.append(pl)
        for kind, sig, detail in viol:
            out["violations"].append({"kind": kind, "sig": sig, "stage": "simulation", "detail": detail, "index": -1, "no_shrink": True,
                                      "plan": {"mode": "aggregate", "plans": subs, "steps": None}})
    return out


def execute_aggregate(plan, keep_log=False):
    res = core.Result()
    log = core.EventLog(keep_log)
    for sub in plan["plans"]:
        r = execute_extreme(sub, False)
        for k, v in r.stats.items():
            res.count(k, v)
        res.steps += r.steps
        log.add("aggregate", r.digest)
    for kind, sig, detail in _aggregate_violations(res.stats)[1]:
        res.violate(kind, sig, detail, -1)
    res.digest = log.digest()
    res.sched_digest = log.full_digest()
    return res


def simplify(plan):
    import copy
    if plan.get("mode") != "history":
        return
    used = sorted(set(st["s"] % len(plan["screens"]) for st in plan["steps"] if "s" in st))
    if used and len(used) < len(plan["screens"]):
        c = copy.deepcopy(plan)
        c["screens"] = [plan["screens"][u] for u in used]
        for st in c["steps"]:
            if "s" in st:
                st["s"] = used.index(st["s"] % len(plan["screens"]))
            elif st["noise"].get("k") == "other_screen":
                st["noise"]["like"] = 0
        yield c
    for i, st in enumerate(plan["steps"]):
        if st.get("op") in ("read", "print") and st.get("how") not in ("attr", "repr"):
            c = copy.deepcopy(plan)
            c["steps"][i]["how"] = "attr" if st["op"] == "read" else "repr"
            yield c
    for i, sp in enumerate(plan["screens"]):
        if isinstance(sp["seed"], dict):
            c = copy.deepcopy(plan)
            c["screens"][i]["seed"] = 1
            yield c


def execute(plan, keep_log=False):
    """every pool or executor the library may create while this plan runs is a simulated one (thread pools under the baton
    scheduler), so that concurrency introduced into these code paths is decided by the plan and replays"""
    from sim import simpool
    kern = simpool.Kernel(None, None)
    kern.__enter__()
    try:
        pool = plan.get("pool") or {}
        kern.configure(pool.get("sched"), pool.get("mode", "inproc"))
        return _execute(plan, keep_log)
    finally:
        kern.__exit__(None, None, None)
