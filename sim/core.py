"""
Common engine of the deterministic simulators (DESIGN.md section 3).

  VERIF_SEED -> run seeds -> PLAN (explicit, JSON) -> EXECUTE (no PRNG) -> event log -> digest
  violation  -> ddmin over the plan -> replay file -> "VIOLATION property=<id> replay=<path>"

Nothing in this file draws random numbers while a plan executes, and nothing in
it reads a clock except `_wall()` which is used for `wall_s` and watchdogs only.
"""
import concurrent.futures as _cf
import faulthandler
import hashlib
import json
import multiprocessing as _mp
import os
import random
import signal
import subprocess
import sys
import time as _time
import traceback

# private references taken before any seam is installed (the simulator never simulates itself)
_wall = _time.perf_counter
_REAL_EXECUTOR = _cf.ProcessPoolExecutor
_REAL_WAIT = _cf.wait
_FORK_CTX = _mp.get_context("fork")

VERIF_DIR = os.path.dirname(os.path.dirname(os.path.abspath(__file__)))
REPO_DIR = os.environ.get("VERIF_REPO", "/repo")
DEFAULT_SEED = 20260926
N_PROCS = int(os.environ.get("VERIF_PROCS", "16"))

EXIT_OK, EXIT_VIOLATION, EXIT_HARNESS = 0, 1, 2


class HarnessError(Exception):
    pass


# ----------------------------------------------------------------------------------------------
# PRNG tree: one integer decides everything
# ----------------------------------------------------------------------------------------------
def derive(seed, *names):
    h = hashlib.sha256(repr((int(seed),) + tuple(names)).encode()).digest()
    return int.from_bytes(h[:8], "big")


class Rng(random.Random):
    """random.Random with named, independent sub-streams."""

    def __init__(self, seed):
        self.seed0 = int(seed)
        super().__init__(self.seed0)

    def sub(self, *names):
        return Rng(derive(self.seed0, *names))

    def chance(self, p):
        return self.random() < p

    def pick(self, seq):
        return seq[self.randrange(len(seq))]

    def weighted(self, pairs):
        tot = sum(w for _, w in pairs)
        x = self.random() * tot
        for v, w in pairs:
            x -= w
            if x < 0:
                return v
        return pairs[-1][0]

    def logu(self, lo, hi):
        import math
        return math.exp(self.uniform(math.log(lo), math.log(hi)))


# ----------------------------------------------------------------------------------------------
# event log / digest
# ----------------------------------------------------------------------------------------------
def hbytes(b):
    return hashlib.sha256(b).hexdigest()[:16]


def harr(a):
    """digest of an ndarray: dtype, shape and bytes (C order)."""
    import numpy
    a = numpy.asarray(a)
    h = hashlib.sha256()
    h.update(str(a.dtype).encode())
    h.update(repr(a.shape).encode())
    h.update(numpy.ascontiguousarray(a).tobytes())
    return h.hexdigest()[:16]


class EventLog(object):
    """Append-only log of what happened in one run; its sha256 is the run digest.
    Logging draws nothing from any PRNG and reads no clock."""

    def __init__(self, keep=False):
        self._h = hashlib.sha256()        # what the library returned / did: the run digest
        self._hs = hashlib.sha256()       # plus the simulator's own schedule events
        self.n = 0
        self.keep = keep
        self.events = []

    def add(self, *fields):
        s = json.dumps(fields, sort_keys=True, default=str)
        self._h.update(s.encode())
        self._h.update(b"\n")
        self._hs.update(s.encode())
        self._hs.update(b"\n")
        self.n += 1
        if self.keep:
            self.events.append(fields)

    def sched(self, *fields):
        """simulator-internal events (which worker took which chunk when): part of the schedule digest only. A tree may
        legally keep pools or caches alive between calls, which changes these without changing any result."""
        s = json.dumps(fields, sort_keys=True, default=str)
        self._hs.update(s.encode())
        self._hs.update(b"\n")
        if self.keep:
            self.events.append(("sched",) + tuple(fields))

    def digest(self):
        return self._h.hexdigest()[:16]

    def full_digest(self):
        return self._hs.hexdigest()[:16]


class Result(object):
    """What one executed plan produced."""

    def __init__(self):
        self.violations = []     # [{"kind","sig","detail","step"}]
        self.stats = {}          # counters: fired faults, probes
        self.sigs = set()        # distinct non-trivial schedule / history signatures (hashed)
        self.steps = 0
        self.sim_time = 0.0
        self.digest = ""
        self.sched_digest = ""
        self.inconclusive = []   # notes (never alarms)
        self.step_results = {}   # stable key -> digest of what that step returned (order-independence stage)

    def count(self, key, n=1):
        self.stats[key] = self.stats.get(key, 0) + n

    def violate(self, kind, sig, detail, step=-1):
        self.violations.append({"kind": kind, "sig": sig, "detail": str(detail)[:600], "step": step})

    def sig(self, *parts):
        self.sigs.add(hbytes(repr(parts).encode()))

    def summary(self):
        return {"violations": self.violations, "stats": self.stats, "sigs": sorted(self.sigs),
                "steps": self.steps, "sim_time": self.sim_time, "digest": self.digest, "sched_digest": self.sched_digest,
                "inconclusive": self.inconclusive}


# ----------------------------------------------------------------------------------------------
# worlds
# ----------------------------------------------------------------------------------------------
_WORLDS = {}


def get_world(pid):
    if pid not in _WORLDS:
        import importlib
        _WORLDS[pid] = importlib.import_module("sim.worlds." + pid.lower())
    return _WORLDS[pid]


def run_seed(base_seed, pid, index):
    return derive(base_seed, pid, index)


def plan_for(pid, base_seed, index, tier):
    w = get_world(pid)
    rng = Rng(run_seed(base_seed, pid, index))
    plan = w.gen_plan(rng, tier, index)
    # the plan must survive a JSON round trip unchanged: the replay file *is* the plan
    return json.loads(json.dumps(plan))


def execute_plan(pid, plan, keep_log=False):
    """Execute a plan in a fresh world. Exceptions escaping the world are harness errors."""
    w = get_world(pid)
    res = w.execute(plan, keep_log)
    return res


_ALARM_READY = [False]


def _alarm_guard(seconds):
    """per-run watchdog without a helper thread (a thread would make fork() inside the simulated
    pool unsafe): SIGALRM dumps the traceback and then kills the worker -> BrokenProcessPool -> exit 2"""
    if not _ALARM_READY[0]:
        signal.signal(signal.SIGALRM, signal.SIG_DFL)
        faulthandler.register(signal.SIGALRM, all_threads=True, chain=True)
        _ALARM_READY[0] = True
    signal.alarm(int(seconds))


def _alarm_cancel():
    signal.alarm(0)


def in_fresh_fork(fn, arg, watchdog=600):
    """run fn(arg) in a child forked from this (warm) process and return its result. Every block of runs
    starts from the same process state, so a run's outcome is a function of the plans executed before it in
    its block and nothing else - which makes hidden cross-call state reproducible instead of flaky."""
    import pickle
    r, w = os.pipe()
    pid = os.fork()
    if pid == 0:
        code = 0
        try:
            os.close(r)
            try:
                os.setpgid(0, 0)      # own process group: whatever this child leaves behind is killed with it
            except OSError:
                pass
            _die_with_parent()
            # the library under test may print and warn; neither belongs in the check's output
            dn = os.open(os.devnull, os.O_WRONLY)
            os.dup2(dn, 1)
            import warnings
            warnings.simplefilter("ignore")
            signal.signal(signal.SIGALRM, signal.SIG_DFL)
            faulthandler.register(signal.SIGALRM, all_threads=True, chain=True)
            signal.alarm(int(watchdog))
            try:
                out = ("ok", fn(arg))
            except BaseException:
                out = ("err", traceback.format_exc())
            signal.alarm(0)
            data = pickle.dumps(out)
            view = memoryview(data)
            while view:
                n = os.write(w, view)
                view = view[n:]
        except BaseException:
            code = 3
        finally:
            os._exit(code)
    os.close(w)
    chunks = []
    while True:
        part = os.read(r, 1 << 20)
        if not part:
            break
        chunks.append(part)
    os.close(r)
    _, status = os.waitpid(pid, 0)
    try:
        os.killpg(pid, signal.SIGKILL)      # stragglers (workers of real pools the code under test never closed)
    except OSError:
        pass
    if not chunks:
        raise HarnessError("isolated child died without a result (status %d; watchdog %ds)" % (status, watchdog))
    kind, val = pickle.loads(b"".join(chunks))
    if kind == "err":
        raise HarnessError(val)
    return val


def _run_block_inner(args):
    pid, base_seed, tier, indices, want_plans = args
    out = []
    for i in indices:
        plan = plan_for(pid, base_seed, i, tier)
        res = execute_plan(pid, plan)
        s = res.summary()
        s["index"] = i
        if res.violations or i in want_plans:
            s["plan"] = plan
        out.append(s)
    return out


def _run_block(args):
    """pool worker: execute a block of run indices in a fresh fork, return compact summaries."""
    try:
        per_run = int(os.environ.get("VERIF_RUN_WATCHDOG", "300"))
        return {"runs": in_fresh_fork(_run_block_inner, args, watchdog=per_run + 20 * len(args[3]))}
    except HarnessError as e:
        return {"harness_error": "block %s..: %s" % (args[3][:1], e)}
    except BaseException:
        return {"harness_error": "block %s..: %s" % (args[3][:1], traceback.format_exc())}


def _both_digests_inner(args):
    pid, plan = args
    r = execute_plan(pid, plan)
    return [r.digest, r.sched_digest]


def _history_probe_inner(args):
    pid, prefix, plan = args
    for p in prefix:
        execute_plan(pid, p)
    return execute_plan(pid, plan).digest


def history_probe(pid, prefix, plan):
    """digest of `plan` executed alone vs. after `prefix`, each in its own fresh fork"""
    alone = in_fresh_fork(_history_probe_inner, (pid, [], plan))
    after = in_fresh_fork(_history_probe_inner, (pid, prefix, plan))
    return alone, after


def _step_results_inner(args):
    pid, plan = args
    r = execute_plan(pid, plan)
    return r.step_results


def order_probe(pid, variants):
    """execute every variant (the same operations in another order / interleaving) in its own fresh fork and compare
    what each operation returned, key by key"""
    outs = [in_fresh_fork(_step_results_inner, (pid, v)) for v in variants]
    bad = []
    base = outs[0]
    for vi, o in enumerate(outs[1:], 1):
        for k in sorted(set(base) & set(o)):
            if base[k] != o[k]:
                bad.append((k, vi, base[k], o[k]))
    return bad, sum(len(set(base) & set(o)) for o in outs[1:])


def _order_job(args):
    pid, base_seed, tier, i = args
    w = get_world(pid)
    try:
        plan = plan_for(pid, base_seed, i, tier)
        variants = w.order_variants(plan)
        if not variants or len(variants) < 2:
            return {"index": i, "skipped": True}
        bad, n = order_probe(pid, variants)
        if bad:
            bad2, _ = order_probe(pid, variants)           # must reproduce, otherwise it is nondeterminism
            if sorted(bad2) != sorted(bad):
                return {"index": i, "nondeterministic": True, "bad": bad[:3]}
            # shrink: drop operations (from every variant alike) while some key still differs
            small = variants
            if hasattr(w, "order_drop"):
                keys = sorted(set(k for k, _, _, _ in bad))
                small = _shrink_order(pid, w, variants, keys)
            return {"index": i, "bad": bad[:5], "variants": small, "compared": n}
        return {"index": i, "compared": n}
    except HarnessError as e:
        return {"index": i, "harness_error": str(e)}


def _shrink_order(pid, w, variants, keys, budget=60):
    best = variants
    ops = w.order_ops(best)
    n = 2
    used = 0
    while len(ops) > 2 and used < budget:
        size = max(1, len(ops) // n)
        reduced = False
        for k in range(0, len(ops), size):
            drop = ops[k:k + size]
            cand = w.order_drop(best, drop)
            if cand is None:
                continue
            used += 1
            try:
                bad, _ = order_probe(pid, cand)
            except HarnessError:
                bad = []
            if bad:
                best, ops, reduced = cand, w.order_ops(cand), True
                break
        if not reduced:
            if size == 1:
                break
            n = min(len(ops), n * 2)
    return best


def _history_job(args):
    """pool worker: is the digest mismatch of run `i` a reproducible dependence on the runs executed before it
    in its block (hidden state between calls), or true nondeterminism? Shrinks the prefix when reproducible."""
    pid, base_seed, tier, block_indices, i = args
    plan = plan_for(pid, base_seed, i, tier)
    prefix_idx = [j for j in block_indices if j < i]
    prefix = [plan_for(pid, base_seed, j, tier) for j in prefix_idx]
    a1, b1 = history_probe(pid, prefix, plan)
    a2, b2 = history_probe(pid, prefix, plan)
    if a1 != a2 or b1 != b2:
        return {"kind": "nondeterministic", "index": i, "digests": [a1, a2, b1, b2]}
    if a1 == b1:
        return {"kind": "not-reproduced", "index": i, "digests": [a1, b1]}
    # ddmin over the prefix (which earlier run leaves the state behind?)
    keep = list(range(len(prefix)))
    n = 2
    tests = 0
    while len(keep) > 1 and tests < 40:
        size = max(1, len(keep) // n)
        reduced = False
        for k in range(0, len(keep), size):
            cand = keep[:k] + keep[k + size:]
            if not cand:
                continue
            tests += 1
            a, b = history_probe(pid, [prefix[c] for c in cand], plan)
            if a != b:
                keep, reduced = cand, True
                break
        if not reduced:
            if size == 1:
                break
            n = min(len(keep), n * 2)
    return {"kind": "history-dependent", "index": i, "prefix_indices": [prefix_idx[c] for c in keep],
            "prefix": [prefix[c] for c in keep], "plan": plan, "digests": [a1, b1]}


def _die_with_parent():
    """Linux: this process gets SIGKILL when the process that forked it dies, so that a check that gives up (watchdog) leaves no
    workers or isolated children behind holding the caller's pipes"""
    try:
        import ctypes
        ctypes.CDLL("libc.so.6", use_errno=True).prctl(1, int(signal.SIGKILL), 0, 0, 0)      # PR_SET_PDEATHSIG
    except Exception:
        pass


def _worker_init():
    # forked after warm-up; nothing to import. Make sure stray signals kill us quietly.
    signal.signal(signal.SIGINT, signal.SIG_DFL)
    _die_with_parent()


class Farm(object):
    """16-way fan-out over forked workers (forked after aotools is imported and warm)."""

    def __init__(self, nprocs=None):
        self.nprocs = nprocs or N_PROCS
        self.ex = _REAL_EXECUTOR(max_workers=self.nprocs, mp_context=_FORK_CTX, initializer=_worker_init)

    def map_blocks(self, pid, base_seed, tier, indices, block, want_plans=(), timeout=3000):
        blocks = [indices[k:k + block] for k in range(0, len(indices), block)]
        futs = [self.ex.submit(_run_block, (pid, base_seed, tier, b, set(want_plans))) for b in blocks]
        runs = []
        deadline = _wall() + timeout
        for f in futs:
            try:
                r = f.result(timeout=max(1.0, deadline - _wall()))
            except _cf.TimeoutError:
                raise HarnessError("watchdog: block did not finish within %ds" % timeout)
            except Exception as e:  # BrokenProcessPool etc.
                raise HarnessError("worker died: %r" % (e,))
            if "harness_error" in r:
                raise HarnessError(r["harness_error"])
            runs.extend(r["runs"])
        runs.sort(key=lambda s: s["index"])
        return runs

    def map_calls(self, fn, args, timeout=1800):
        futs = [self.ex.submit(fn, a) for a in args]
        out = []
        deadline = _wall() + timeout
        for f in futs:
            try:
                out.append(f.result(timeout=max(1.0, deadline - _wall())))
            except _cf.TimeoutError:
                raise HarnessError("watchdog: call did not finish within %ds" % timeout)
            except Exception as e:
                raise HarnessError("worker died: %r" % (e,))
        return out

    def call(self, fn, arg, timeout=900):
        f = self.ex.submit(fn, arg)
        try:
            return f.result(timeout=timeout)
        except _cf.TimeoutError:
            raise HarnessError("watchdog: call did not finish within %ds" % timeout)
        except Exception as e:
            raise HarnessError("worker died: %r" % (e,))

    def close(self):
        procs = list(getattr(self.ex, "_processes", {}).values())
        self.ex.shutdown(wait=False, cancel_futures=True)
        for p in procs:
            try:
                p.kill()
            except Exception:
                pass
        for p in procs:
            try:
                p.join(5)
            except Exception:
                pass


# ----------------------------------------------------------------------------------------------
# shrinking (ddmin over plan["steps"] + world-specific simplifications)
# ----------------------------------------------------------------------------------------------
def _violation_sigs(args):
    pid, plan = args
    return [v["sig"] for v in execute_plan(pid, plan).violations]


def _prefixed_sigs(args):
    pid, prefix, plan = args
    for p in prefix:
        execute_plan(pid, p)
    return [v["sig"] for v in execute_plan(pid, plan).violations]


def _prefix_job(args):
    """a violation that does not reproduce when its plan runs alone in a fresh process: it needs the state that earlier
    runs of its block left behind. Find a (ddmin-reduced) prefix of earlier plans after which it does reproduce."""
    pid, base_seed, tier, block_indices, i, sig = args
    plan = plan_for(pid, base_seed, i, tier)
    prefix_idx = [j for j in block_indices if j < i]
    prefix = [plan_for(pid, base_seed, j, tier) for j in prefix_idx]

    def shows(pref):
        try:
            return sig in in_fresh_fork(_prefixed_sigs, (pid, pref, plan), watchdog=600)
        except HarnessError:
            return False
    if not shows(prefix):
        return None
    keep = list(range(len(prefix)))
    n, tests = 2, 0
    while len(keep) > 1 and tests < 40:
        size = max(1, len(keep) // n)
        reduced = False
        for k in range(0, len(keep), size):
            cand = keep[:k] + keep[k + size:]
            tests += 1
            if shows([prefix[c] for c in cand]):
                keep, reduced = cand, True
                break
        if not reduced:
            if size == 1:
                break
            n = min(len(keep), n * 2)
    return {"prefix": [prefix[c] for c in keep], "prefix_indices": [prefix_idx[c] for c in keep], "plan": plan}


def _same_violation(pid, plan, sig):
    """does this candidate still show the violation? Judged in a fresh fork, so that the verdict is a function of the
    candidate alone and not of whatever earlier candidates left behind in the process (module caches of a broken tree)"""
    try:
        sigs = in_fresh_fork(_violation_sigs, (pid, plan), watchdog=300)
    except BaseException:
        return None
    return sig if sig in sigs else None


def shrink(pid, plan, sig, budget=400, wall=240):
    """Greedy delta debugging: keep a candidate iff it still shows a violation with the same signature."""
    t0 = _wall()
    used = [0]

    def ok(cand):
        if used[0] >= budget or _wall() - t0 > wall:
            return False
        used[0] += 1
        return _same_violation(pid, cand, sig) is not None

    w = get_world(pid)
    best = plan
    changed = True
    while changed and used[0] < budget and _wall() - t0 < wall:
        changed = False
        # 1. drop chunks of steps
        steps = best.get("steps") or []
        n = 2
        while len(steps) >= 1 and n <= max(2, len(steps)) and used[0] < budget:
            size = max(1, len(steps) // n)
            removed = False
            for k in range(0, len(steps), size):
                cand_steps = steps[:k] + steps[k + size:]
                if len(cand_steps) == len(steps):
                    continue
                cand = dict(best)
                cand["steps"] = cand_steps
                if ok(cand):
                    best, steps, removed, changed = cand, cand_steps, True, True
                    break
            if not removed:
                if size == 1:
                    break
                n = min(len(steps), n * 2)
        # 2. world-specific simplifications (each yields complete candidate plans)
        if hasattr(w, "simplify"):
            progress = True
            while progress and used[0] < budget:
                progress = False
                for cand in w.simplify(best):
                    cand = json.loads(json.dumps(cand))
                    if cand != best and ok(cand):
                        best, progress, changed = cand, True, True
                        break
    return best, used[0]


def _alone_job(args):
    pid, plan, sig = args
    return _same_violation(pid, plan, sig) is not None


def _shrink_job(args):
    pid, plan, sig = args
    _alarm_guard(1200)
    try:
        return shrink(pid, plan, sig)
    finally:
        _alarm_cancel()


# ----------------------------------------------------------------------------------------------
# known findings
# ----------------------------------------------------------------------------------------------
def load_known(pid):
    path = os.path.join(VERIF_DIR, "known_findings.json")
    if not os.path.exists(path):
        return []
    with open(path) as f:
        data = json.load(f)
    return [e for e in data.get("findings", []) if e.get("property") == pid and e.get("status") == "open"]


def match_known(known, sig):
    for e in known:
        if e["sig"] == sig:
            return e
    return None


# ----------------------------------------------------------------------------------------------
# tree identity (informational, stored in replay files and evidence)
# ----------------------------------------------------------------------------------------------
def tree_id():
    try:
        head = subprocess.run(["git", "-C", REPO_DIR, "rev-parse", "HEAD"], capture_output=True, text=True,
                              timeout=20).stdout.strip()
        dirty = bool(subprocess.run(["git", "-C", REPO_DIR, "status", "--porcelain", "--untracked-files=no"],
                                    capture_output=True, text=True, timeout=20).stdout.strip())
        return {"git_head": head, "dirty": dirty}
    except Exception:
        return {"git_head": "unknown", "dirty": None}


# ----------------------------------------------------------------------------------------------
# the check driver
# ----------------------------------------------------------------------------------------------
def write_json(path, obj):
    os.makedirs(os.path.dirname(path), exist_ok=True)
    tmp = path + ".tmp%d" % os.getpid()
    with open(tmp, "w") as f:
        json.dump(obj, f, indent=1, sort_keys=True, default=str)
        f.write("\n")
    os.replace(tmp, path)


def fresh_digests(pid, base_seed, tier, indices, hashseed):
    """digests of the given runs computed in a fresh interpreter with another PYTHONHASHSEED."""
    env = dict(os.environ)
    env["PYTHONHASHSEED"] = str(hashseed)
    env["VERIF_SEED"] = str(base_seed)
    cmd = [sys.executable, os.path.join(VERIF_DIR, "check"), pid, "--tier", tier, "--digests",
           ",".join(str(i) for i in indices)]
    p = subprocess.run(cmd, env=env, capture_output=True, text=True, timeout=1500)
    if p.returncode != 0:
        raise HarnessError("fresh-interpreter digest run failed (%d): %s" % (p.returncode, p.stderr[-2000:]))
    line = [l for l in p.stdout.splitlines() if l.startswith("DIGESTS ")][-1]
    return json.loads(line[len("DIGESTS "):])


def plan_digest_in_fresh_interpreter(pid, plan, hashseed):
    """result digest of one plan executed in a brand-new interpreter started with the given PYTHONHASHSEED"""
    import tempfile
    env = dict(os.environ)
    env["PYTHONHASHSEED"] = str(hashseed)
    fd, path = tempfile.mkstemp(prefix="plan-", suffix=".json", dir=os.environ.get("TMPDIR", "/tmp"))
    try:
        with os.fdopen(fd, "w") as f:
            json.dump({"plan": plan}, f)
        p = subprocess.run([sys.executable, os.path.join(VERIF_DIR, "check"), pid, "--plan-digest", path], env=env,
                           capture_output=True, text=True, timeout=900)
    finally:
        try:
            os.remove(path)
        except OSError:
            pass
    if p.returncode != 0:
        raise HarnessError("plan-digest run failed (%d): %s" % (p.returncode, p.stderr[-1500:]))
    return [l for l in p.stdout.splitlines() if l.startswith("PLANDIGEST ")][-1].split()[1]


def run_plan_digest(pid, path, out=sys.stdout):
    with open(path) as f:
        plan = json.load(f)["plan"]
    get_world(pid).warm()
    print("PLANDIGEST " + in_fresh_fork(_history_probe_inner, (pid, [], plan)), file=out)
    return EXIT_OK


def run_check(pid, tier, base_seed, out=sys.stdout):
    t0 = _wall()
    w = get_world(pid)
    w.warm()                       # import aotools with seams installed, JIT kernels
    sizes = w.sizes(tier)
    n_runs = sizes["runs"]
    block = sizes.get("block", 25)
    indices = list(range(n_runs))
    sample_idx = [0, 1, 2] if n_runs >= 3 else indices
    known = load_known(pid)

    farm = Farm()
    violations_new, known_hits = [], {}
    try:
        runs = farm.map_blocks(pid, base_seed, tier, indices, block, want_plans=sample_idx,
                               timeout=sizes.get("timeout", 3000))

        # ---- determinism self-test: same seeds again, other worker / other neighbours / fresh interpreter
        n_det = min(n_runs, sizes.get("det", 24))
        # the last run of evenly spaced blocks: it had the longest history of earlier runs in its process
        n_blocks = (n_runs + block - 1) // block
        det_idx = sorted(set(min(n_runs - 1, (int(k * (n_blocks - 1) / max(1, n_det - 1)) + 1) * block - 1) for k in range(n_det)))
        again = farm.map_blocks(pid, base_seed, tier, list(reversed(det_idx)), 1, timeout=1500)
        d1 = dict((r["index"], r["digest"]) for r in runs)
        mism = [r["index"] for r in again if d1[r["index"]] != r["digest"]]
        fresh_n = sizes.get("det_fresh", 6)
        fidx = det_idx[:: max(1, len(det_idx) // fresh_n)][:fresh_n]
        fresh = fresh_digests(pid, base_seed, tier, fidx, hashseed=4242) if fidx else {}
        fresh_mism = [int(i) for i, d in fresh.items() if d1[int(i)] != d[0] and int(i) not in mism]
        # a run that is stable in this interpreter but differs in one started with another PYTHONHASHSEED: does the result
        # depend on the interpreter's hash seed (salted hash() of str/bytes, set iteration order)?
        hashseed_dependent = []
        for i in fresh_mism[:3]:
            plan_i = plan_for(pid, base_seed, i, tier)
            same0 = plan_digest_in_fresh_interpreter(pid, plan_i, os.environ.get("PYTHONHASHSEED", "0"))
            other = plan_digest_in_fresh_interpreter(pid, plan_i, 4242)
            other2 = plan_digest_in_fresh_interpreter(pid, plan_i, 777)
            if same0 == d1[i] and other == fresh[str(i)][0] and other != same0:
                hashseed_dependent.append({"index": i, "plan": plan_i, "digests": {"hashseed-main": same0, "hashseed-4242": other, "hashseed-777": other2}})
            else:
                mism.append(i)
        # schedule-level determinism: the same plan alone in a pristine fork vs alone in a fresh interpreter
        alone_full = dict((r["index"], r.get("sched_digest")) for r in again)
        sched_mism = [int(i) for i, d in fresh.items() if alone_full.get(int(i)) not in (None, "", d[1]) and d[1]]
        det_report = {"seeds_rerun_isolated_process": len(det_idx), "seeds_rerun_fresh_interpreter": len(fresh),
                      "mismatches": sorted(set(mism)), "history_dependent": [], "nondeterministic": [],
                      "hashseed_dependent": [h_["index"] for h_ in hashseed_dependent],
                      "schedule_digest_mismatches_between_two_pristine_executions": sorted(set(sched_mism))}

        # ---- a mismatch is either hidden state carried between calls (reproducible: depends on the runs
        #      executed earlier in the same block) or true nondeterminism of the harness
        history_violations = []
        for i in sorted(set(mism))[:3]:
            blk = [b for b in (indices[k:k + block] for k in range(0, len(indices), block)) if i in b][0]
            h = farm.call(_history_job, (pid, base_seed, tier, blk, i), timeout=1500)
            if h["kind"] == "history-dependent":
                det_report["history_dependent"].append({"index": i, "after_runs": h["prefix_indices"], "digests": h["digests"]})
                history_violations.append(h)
            else:
                det_report["nondeterministic"].append({"index": i, "kind": h["kind"], "digests": h["digests"]})

        # ---- world-level extra stages (conformance against the real pool, ...)
        extra = {}
        if hasattr(w, "extra_stage"):
            import inspect
            if "stats" in inspect.signature(w.extra_stage).parameters:
                agg = {}
                for r in runs:
                    for k_, n_ in r["stats"].items():
                        agg[k_] = agg.get(k_, 0) + n_
                extra = w.extra_stage(tier, base_seed, farm, stats=agg, runs=runs) or {}
            else:
                extra = w.extra_stage(tier, base_seed, farm) or {}

        # ---- order-independence stage: the same operations in another order / interleaving, each order in a pristine
        #      process; what each operation returns must not depend on what ran before it
        order_report = None
        if hasattr(w, "order_variants") and sizes.get("order", 0):
            n_ord = min(n_runs, sizes["order"])
            oidx = sorted(set(int(k * (n_runs - 1) / max(1, n_ord - 1)) for k in range(n_ord)))
            outs = farm.map_calls(_order_job, [(pid, base_seed, tier, i) for i in oidx], timeout=sizes.get("timeout", 3000))
            order_report = {"plans_rerun_in_another_order": 0, "operations_compared": 0, "order_dependent": [], "nondeterministic": []}
            for o in outs:
                if o.get("harness_error"):
                    raise HarnessError("order stage: " + o["harness_error"])
                if o.get("skipped"):
                    continue
                order_report["plans_rerun_in_another_order"] += 1
                order_report["operations_compared"] += o.get("compared", 0)
                if o.get("nondeterministic"):
                    order_report["nondeterministic"].append(o["index"])
                elif o.get("bad"):
                    order_report["order_dependent"].append(o["index"])
                    k, vi, a_, b_ = o["bad"][0]
                    extra.setdefault("violations", []).append({
                        "kind": "hidden-state", "sig": "%s:result-depends-on-the-order-of-unrelated-operations" % pid, "stage": "order",
                        "detail": "run %d: operation %s returns %s when the plan runs in its original order but %s in variant %d "
                                  "(same operations, other order; both in pristine processes; reproduced twice)" % (o["index"], k, a_, b_, vi),
                        "index": o["index"], "no_shrink": True, "plan": {"variants": o["variants"], "steps": None}})
            extra.setdefault("coverage", {})["order_independence"] = order_report

        # ---- classify violations
        for r in runs:
            for v in r["violations"]:
                e = match_known(known, v["sig"])
                if e is not None:
                    known_hits.setdefault(v["sig"], [e, 0, v])
                    known_hits[v["sig"]][1] += 1
                else:
                    violations_new.append((r["index"], r["plan"], v))
        for v in extra.get("violations", []):
            e = match_known(known, v["sig"])
            if e is not None:
                known_hits.setdefault(v["sig"], [e, 0, v])
                known_hits[v["sig"]][1] += 1
            else:
                violations_new.append((v.get("index", -1), v.get("plan"), v))

        for h_ in hashseed_dependent:
            v = {"kind": "hidden-state", "sig": "%s:result-depends-on-the-interpreter-hash-seed" % pid, "stage": "hashseed", "no_shrink": True, "step": -1,
                 "detail": "run %d gives digest %s in interpreters started with PYTHONHASHSEED=%s but %s with 4242 (and %s with 777): the result "
                           "depends on salted hash() values or set order, i.e. it is not reproducible across processes"
                           % (h_["index"], h_["digests"]["hashseed-main"], os.environ.get("PYTHONHASHSEED", "0"), h_["digests"]["hashseed-4242"],
                              h_["digests"]["hashseed-777"])}
            if getattr(w, "HISTORY_DEPENDENCE_IS_VIOLATION", False):
                e = match_known(known, v["sig"])
                if e is not None:
                    known_hits.setdefault(v["sig"], [e, 0, v])
                    known_hits[v["sig"]][1] += 1
                else:
                    violations_new.append((h_["index"], {"plan": h_["plan"], "steps": None}, v))
            else:
                det_report["mismatches"].append(h_["index"])
        hist_is_violation = getattr(w, "HISTORY_DEPENDENCE_IS_VIOLATION", False)
        for h in history_violations:
            if not hist_is_violation:
                continue
            v = {"kind": "hidden-state", "sig": "%s:result-depends-on-earlier-unrelated-calls-in-the-process" % pid,
                 "detail": "run %d gives digest %s in a fresh process but %s after runs %s were executed first in the same process "
                           "(reproducible twice): some library state survives between calls"
                           % (h["index"], h["digests"][0], h["digests"][1], h["prefix_indices"]),
                 "stage": "history", "no_shrink": True, "step": -1}
            e = match_known(known, v["sig"])
            if e is not None:
                known_hits.setdefault(v["sig"], [e, 0, v])
                known_hits[v["sig"]][1] += 1
            else:
                violations_new.append((h["index"], {"prefix": h["prefix"], "plan": h["plan"], "steps": None}, v))

        # ---- shrink + replay files for new violations (one per distinct signature, first few)
        reported = []
        seen = set()
        for idx, plan, v in violations_new:
            if v["sig"] in seen or len(seen) >= 5:
                continue
            seen.add(v["sig"])
            small, used = (plan, 0)
            stage = v.get("stage", "simulation")
            if plan is not None and plan.get("steps") is not None and not v.get("no_shrink"):
                alone = farm.call(_alone_job, (pid, plan, v["sig"]), timeout=700)
                if alone:
                    try:
                        small, used = farm.call(_shrink_job, (pid, plan, v["sig"]), timeout=1300)
                    except HarnessError:
                        small, used = plan, -1
                else:
                    # needs what earlier runs of its block left behind in the process: replay = prefix + plan
                    blk = [b for b in (indices[k:k + block] for k in range(0, len(indices), block)) if idx in b][0]
                    pj = farm.call(_prefix_job, (pid, base_seed, tier, blk, idx, v["sig"]), timeout=1500)
                    if pj is not None:
                        small, stage = {"prefix": pj["prefix"], "plan": pj["plan"], "steps": None}, "prefixed"
                        v = dict(v, detail=v["detail"] + " [reproduces only after runs %s were executed first in the same process]" % pj["prefix_indices"])
            path = os.path.join(os.environ.get("VERIF_REPLAY_DIR", os.path.join(VERIF_DIR, "replays")), "%s-%d-%d%s.json" % (pid, base_seed, idx, "" if v.get("stage", "simulation") == "simulation" else "-" + v["stage"]))
            write_json(path, {"property": pid, "seed": base_seed, "run_index": idx, "run_seed": run_seed(base_seed, pid, idx),
                              "tier": tier, "tree": tree_id(), "shrink_executions": used,
                              "original_steps": len(plan.get("steps") or []) if plan else None,
                              "plan": small, "expect": {"sig": v["sig"], "kind": v["kind"], "detail": v["detail"]},
                              "stage": stage})
            reported.append((path, v))
    finally:
        farm.close()

    wall = _wall() - t0

    # ---- evidence
    stats, sigs, steps, sim_time, incon = {}, set(), 0, 0.0, []
    for r in runs:
        for k, n in r["stats"].items():
            stats[k] = stats.get(k, 0) + n
        sigs.update(r["sigs"])
        steps += r["steps"]
        sim_time += r["sim_time"]
        incon.extend(r["inconclusive"])
    samples = [{"run_index": r["index"], "run_seed": run_seed(base_seed, pid, r["index"]),
                "plan": w.sample_view(r["plan"]) if hasattr(w, "sample_view") else r["plan"]}
               for r in runs if r["index"] in sample_idx and "plan" in r]
    cov = {
        "evaluations": n_runs,
        "distinct_nontrivial": len(sigs),
        "rule": w.RULE,
        "samples": samples,
        "steps_executed": steps,
        "simulated_time_units": round(sim_time, 3),
        "runs_per_hour": int(n_runs / wall * 3600) if wall > 0 else 0,
        "seeds_per_hour": int(n_runs / wall * 3600) if wall > 0 else 0,
        "fault_and_probe_counters": dict(sorted((k, v) for k, v in stats.items() if not k.startswith("called."))),
        "calls_per_function": dict(sorted((k[7:], v) for k, v in stats.items() if k.startswith("called."))),
        "determinism_selftest": det_report,
        "components": w.COMPONENTS,
        "inconclusive_notes": sorted(set(incon))[:20],
        "known_findings_hit": dict((s, c[1]) for s, c in known_hits.items()),
        "worker_processes": farm.nprocs,
        "tree": tree_id(),
    }
    cov.update(extra.get("coverage", {}))
    ev = {"property_id": pid, "tier": tier, "seed": base_seed, "level": "exploration", "coverage": cov,
          "assumptions": w.ASSUMPTIONS, "wall_s": round(wall, 2), "violations": len(violations_new)}
    write_json(os.path.join(os.environ.get("VERIF_EVIDENCE_DIR", os.path.join(VERIF_DIR, "evidence")), pid + ".json"), ev)

    # ---- verdict
    for s_, (e, n, v) in sorted(known_hits.items()):
        print("KNOWN-FINDING: property=%s %s [%s] (%d occurrences this run)" % (pid, e.get("what", s_), s_, n), file=out)
    if reported:
        for path, v in reported:
            print("violation: %s :: %s" % (v["sig"], v["detail"]), file=out)
            print("VIOLATION property=%s replay=%s" % (pid, path), file=out)
        return EXIT_VIOLATION
    if order_report and order_report["nondeterministic"]:
        print("HARNESS-ERROR property=%s order stage: runs %s give different results on repetition" % (pid, order_report["nondeterministic"]), file=out)
        return EXIT_HARNESS
    if det_report["schedule_digest_mismatches_between_two_pristine_executions"]:
        print("HARNESS-ERROR property=%s runs %s: two pristine executions of the same plan took different simulated schedules"
              % (pid, det_report["schedule_digest_mismatches_between_two_pristine_executions"]), file=out)
        return EXIT_HARNESS
    if det_report["mismatches"]:
        print("HARNESS-ERROR property=%s runs %s: same seed, different digest (%s)"
              % (pid, det_report["mismatches"], json.dumps({"history_dependent": det_report["history_dependent"],
                                                            "nondeterministic": det_report["nondeterministic"]})), file=out)
        return EXIT_HARNESS
    print("OK property=%s tier=%s seed=%d runs=%d steps=%d distinct=%d wall=%.1fs"
          % (pid, tier, base_seed, n_runs, steps, len(sigs), wall), file=out)
    return EXIT_OK


def run_replay(pid, path, out=sys.stdout):
    with open(path) as f:
        rp = json.load(f)
    w = get_world(pid)
    w.warm()
    rp["_path"] = path
    if rp.get("stage") == "hashseed":
        d = dict((h, plan_digest_in_fresh_interpreter(pid, rp["plan"]["plan"], h)) for h in (0, 4242, 777))
        print("replay: digests per PYTHONHASHSEED: %s" % d, file=out)
        if len(set(d.values())) > 1:
            print("VIOLATION property=%s replay=%s" % (pid, path), file=out)
            return EXIT_VIOLATION
        print("replay: the result does not depend on the hash seed on this tree", file=out)
        return EXIT_OK
    if rp.get("stage") == "prefixed":
        sigs = in_fresh_fork(_prefixed_sigs, (pid, rp["plan"]["prefix"], rp["plan"]["plan"]), watchdog=900)
        print("replay: after %d earlier run(s) the plan shows %s" % (len(rp["plan"]["prefix"]), sigs), file=out)
        if rp["expect"]["sig"] in sigs or sigs:
            print("VIOLATION property=%s replay=%s" % (pid, path), file=out)
            return EXIT_VIOLATION
        print("replay: no violation on this tree", file=out)
        return EXIT_OK
    if rp.get("stage") == "order":
        bad, n = order_probe(pid, rp["plan"]["variants"])
        print("replay: %d operations compared across %d orders, %d differ" % (n, len(rp["plan"]["variants"]), len(bad)), file=out)
        for b in bad[:5]:
            print("  operation %s: %s vs %s (variant %d)" % (b[0], b[2], b[3], b[1]), file=out)
        if bad:
            print("VIOLATION property=%s replay=%s" % (pid, path), file=out)
            return EXIT_VIOLATION
        print("replay: results do not depend on the order on this tree", file=out)
        return EXIT_OK
    if rp.get("stage") == "history":
        alone, after = history_probe(pid, rp["plan"]["prefix"], rp["plan"]["plan"])
        print("replay: digest alone=%s, after %d earlier run(s)=%s" % (alone, len(rp["plan"]["prefix"]), after), file=out)
        if alone != after:
            print("VIOLATION property=%s replay=%s" % (pid, path), file=out)
            return EXIT_VIOLATION
        print("replay: no dependence on earlier runs on this tree", file=out)
        return EXIT_OK
    if rp.get("stage", "simulation") != "simulation" and hasattr(w, "replay_stage"):
        return w.replay_stage(rp, out)
    res = execute_plan(pid, rp["plan"], keep_log=True)
    want = rp["expect"]["sig"]
    tries = 1
    while not res.violations and rp["plan"].get("numba_threads", 1) > 1 and tries < 8:
        # the plan runs numba kernels on several real threads: a data race in the code under test is the one thing whose
        # interleaving the simulator does not decide, so its reproduction is probabilistic (stated limitation)
        tries += 1
        res = execute_plan(pid, rp["plan"], keep_log=True)
    if tries > 1:
        print("replay: needed %d attempts (real numba threads: reproduction of a data race is not deterministic)" % tries, file=out)
    hit = [v for v in res.violations if v["sig"] == want]
    print("replay digest=%s steps=%d violations=%d" % (res.digest, res.steps, len(res.violations)), file=out)
    for v in res.violations:
        print("  violation: %s :: %s (step %s)" % (v["sig"], v["detail"], v["step"]), file=out)
    if hit:
        print("VIOLATION property=%s replay=%s" % (pid, path), file=out)
        return EXIT_VIOLATION
    if res.violations:
        print("replay shows a different violation than recorded (%s)" % want, file=out)
        print("VIOLATION property=%s replay=%s" % (pid, path), file=out)
        return EXIT_VIOLATION
    print("replay: no violation on this tree", file=out)
    return EXIT_OK


def run_digests(pid, tier, base_seed, indices, out=sys.stdout):
    w = get_world(pid)
    w.warm()
    d = {}
    for i in indices:
        plan = plan_for(pid, base_seed, i, tier)
        d[str(i)] = in_fresh_fork(_both_digests_inner, (pid, plan))
    print("DIGESTS " + json.dumps(d), file=out)
    return EXIT_OK
