"""
Shared helpers for the phase-screen worlds (C05, C06): parameter generation (plan side, consumes the
PRNG) and construction / stepping of screen actors (execution side, no PRNG).
"""
import numpy

from sim import simpool

KINDS = ("FT", "FTSH", "VK", "KOL")

_mods = {}


def warm():
    """install pool facades (harmless here), import aotools, JIT the numba kernels once"""
    simpool.install()
    if not _mods:
        import aotools  # noqa: F401
        from aotools.turbulence import infinitephasescreen, phasescreen, profile_compression
        _mods["ips"] = infinitephasescreen
        _mods["ps"] = phasescreen
        _mods["pc"] = profile_compression
        # JIT warm-up, best effort: a tree under test may fail here, that is for the checks to find, not for warm()
        for job in (lambda: infinitephasescreen.PhaseScreenVonKarman(8, 0.1, 0.2, 5.0, random_seed=1).add_row(),
                    lambda: infinitephasescreen.PhaseScreenKolmogorov(5, 0.1, 0.2, 5.0, random_seed=1, stencil_length_factor=2).add_row(),
                    lambda: profile_compression.optimal_grouping(1, 2, numpy.arange(6.) * 1000, numpy.ones(6))):
            try:
                numpy.random.seed(12345)
                job()
            except Exception:
                pass
    return _mods


# ---- plan side -------------------------------------------------------------------------------------
def gen_params(rng, kind, small=False, big=False):
    p = _gen_params(rng, kind, small, big)
    if rng.chance(0.2):
        p["types"] = "numpy"
    u = rng.sub("units")
    if kind in ("VK", "KOL") and u.chance(0.15):
        # the model is scale free: the same screen in other length units (sub-millimetre pixels of a bench set-up, or
        # kilometres) - pixel scale, r0 and L0 multiplied by one factor
        f = u.choice([1e-4, 1e-3, 1e-2, 10.0, 1e3])
        for k in ("px", "r0", "L0"):
            p[k] = float("%.6g" % (p[k] * f))
        p["units"] = f
    return p


def _gen_params(rng, kind, small=False, big=False):
    if kind in ("FT", "FTSH"):
        return {"r0": round(rng.logu(0.05, 0.5), 4), "N": rng.choice([128, 100, 65]) if big else rng.choice([8, 16, 32, 9, 12] if small else [8, 16, 32, 64, 9, 12]),
                "delta": round(rng.logu(0.01, 0.5), 4), "L0": round(rng.logu(5, 100), 3), "l0": round(rng.logu(0.001, 0.05), 5)}
    if kind == "VK":
        nx = rng.randint(25, 40) if big else (rng.choice([1, 2, 3]) if rng.chance(0.06) else rng.randint(4, 14 if small else 24))
        px = round(rng.logu(0.05, 0.5), 4)
        return {"nx": nx, "px": px, "r0": round(rng.logu(0.05, 1.0), 4), "L0": round(px * rng.logu(3, 60), 4),
                "ncol": rng.randint(1, min(4, nx))}
    if kind == "KOL":
        nx = rng.choice([18, 25, 31, 33]) if big else rng.choice([1, 2, 3, 4, 5, 6, 7, 8, 9, 10, 12, 13] if small else [2, 3, 4, 5, 6, 7, 8, 9, 10, 12, 13, 16, 17])
        px = round(rng.logu(0.05, 0.5), 4)
        return {"nx": nx, "px": px, "r0": round(rng.logu(0.05, 1.0), 4), "L0": round(px * rng.logu(3, 60), 4),
                "slf": rng.randint(1, 4)}
    raise ValueError(kind)


# ---- execution side --------------------------------------------------------------------------------
_SHARED_SEEDS = {}


def reset_shared_seeds():
    _SHARED_SEEDS.clear()
    _FFT_OBJECTS.clear()


def make_seed(spec):
    """seed spec from the plan -> what is passed to aotools"""
    if spec is None or spec == "none":
        return None
    if isinstance(spec, dict) and "ssc" in spec:
        # the k-th child of SeedSequence(x): what a caller gets from SeedSequence(x).spawn(n) to seed one layer each
        x, k = spec["ssc"]
        return numpy.random.SeedSequence(int(x), spawn_key=(int(k),))
    if isinstance(spec, dict) and "ss" in spec:
        # a numpy SeedSequence; when 'shared', every actor of the run that names it passes the SAME object
        # (per-layer seed objects kept by the caller and reused for several calls)
        if spec.get("shared"):
            key = int(spec["ss"])
            if key not in _SHARED_SEEDS:
                _SHARED_SEEDS[key] = numpy.random.SeedSequence(key)
            return _SHARED_SEEDS[key]
        return numpy.random.SeedSequence(int(spec["ss"]))
    if isinstance(spec, dict):
        if "seq" in spec:
            return [int(x) for x in spec["seq"]]
        if "gen" in spec:
            return numpy.random.Generator(numpy.random.PCG64(int(spec["gen"])))
        if "np" in spec:
            return numpy.int64(spec["np"])          # the same seed as a numpy integer
    return int(spec)


def _t(p, key):
    """a parameter in the type the plan asks for (python number by default, numpy scalar when p['types'] == 'numpy')"""
    v = p[key]
    if p.get("types") == "numpy":
        return numpy.int64(v) if isinstance(v, int) else numpy.float64(v)
    return v


class BufferFFT(object):
    """an 'accelerated FFT object' as the FFT= parameter expects (called with the shifted spectrum, returns the inverse
    transform). Like pyfftw objects it owns its output buffer and returns that same array on every call."""

    def __init__(self):
        self.out = {}

    def __call__(self, x):
        x = numpy.asarray(x)
        buf = self.out.setdefault(x.shape, numpy.empty(x.shape, dtype=complex))
        buf[...] = numpy.fft.ifft2(x)
        return buf


_FFT_OBJECTS = {}


def fft_object(key):
    if key is None:
        return None
    if key == "plain":
        return numpy.fft.ifft2
    return _FFT_OBJECTS.setdefault(key, BufferFFT())           # one object shared by every call of the run that names it


def call_finite(kind, p, seed):
    ps = warm()["ps"]
    f = ps.ft_phase_screen if kind == "FT" else ps.ft_sh_phase_screen
    if p.get("fft"):
        return f(_t(p, "r0"), _t(p, "N"), _t(p, "delta"), _t(p, "L0"), _t(p, "l0"), fft_object(p["fft"]), seed=seed)
    return f(_t(p, "r0"), _t(p, "N"), _t(p, "delta"), _t(p, "L0"), _t(p, "l0"), seed=seed)


def construct_infinite(kind, p, seed):
    ips = warm()["ips"]
    if kind == "VK":
        return ips.PhaseScreenVonKarman(_t(p, "nx"), _t(p, "px"), _t(p, "r0"), _t(p, "L0"), random_seed=seed, n_columns=_t(p, "ncol"))
    return ips.PhaseScreenKolmogorov(_t(p, "nx"), _t(p, "px"), _t(p, "r0"), _t(p, "L0"), random_seed=seed, stencil_length_factor=_t(p, "slf"))


def abytes(a):
    a = numpy.asarray(a)
    return (str(a.dtype), a.shape, numpy.ascontiguousarray(a).tobytes())


def failing_call(v=0):
    """a library call that is refused with an exception on the unchanged tree (error paths must not leave anything behind)"""
    m = warm()
    try:
        if v % 3 == 0:
            m["ips"].PhaseScreenVonKarman(16, 0.001, 0.2, 1000., random_seed=1)          # covariance not invertible
        elif v % 3 == 1:
            m["ips"].PhaseScreenKolmogorov(9, 0.001, 0.2, 5000., random_seed=1)
        else:
            h = numpy.arange(5.) * 1000
            m["pc"].optimal_grouping(1.5, 9, h, numpy.ones(5))                            # float R, L >= N
    except Exception:
        pass
