"""
Registry of the public aotools entry points for the C20 world (DESIGN.md section 8).

Each entry says which *heap categories* its array parameters accept (so the same shared array is handed to
different functions), how to draw its scalar parameters (plan side) and how to make the call (execution
side). A public callable without an entry is reported as uncovered in the evidence, never silently skipped.
"""
import importlib

# heap categories -> what lives there (shapes depend on the plan-level sizes N (image side), M (vector length), K (stack depth))
CATS = ("img2d", "img3d", "img4d", "cplx2d", "cplx3d", "vec_inc", "vec_pos", "mask2d", "pos", "sep", "slopes3", "frames", "cov32", "r32")

ENTRIES = []
BY_NAME = {}


def E(name, arrays=(), scalars=None, call=None, batch=None, random=False, note=None, weight=1.0):
    e = {"name": name, "arrays": list(arrays), "scalars": scalars or (lambda r, z: {}), "call": call, "batch": batch,
         "random": random, "note": note, "weight": weight}
    ENTRIES.append(e)
    BY_NAME[name] = e
    return e


def resolve(name):
    mod, attr = name.rsplit(".", 1)
    return getattr(importlib.import_module(mod), attr)


BANDS = ["U", "B", "V", "R", "I", "J", "H", "K", "g", "r", "i", "z"]

# ---- astronomy --------------------------------------------------------------------------------------------------
E("aotools.astronomy._astronomy.flux_to_magnitude", [("flux", ["vec_pos"])], lambda r, z: {"band": r.choice(BANDS)},
  lambda f, A, S: f(A["flux"], S["band"]))
E("aotools.astronomy._astronomy.magnitude_to_flux", [("mag", ["vec_pos"])], lambda r, z: {"band": r.choice(BANDS)},
  lambda f, A, S: f(A["mag"], S["band"]))
E("aotools.astronomy._astronomy.photons_per_band", [("mask", ["mask2d", "img2d"])],
  lambda r, z: {"mag": r.choice([0, 5.5, 12]), "px": 0.1, "t": 0.01, "band": r.choice(BANDS)},
  lambda f, A, S: f(S["mag"], A["mask"], S["px"], S["t"], S["band"]))
E("aotools.astronomy._astronomy.photons_per_mag", [("mask", ["mask2d", "img2d"])],
  lambda r, z: {"mag": r.choice([0, 5.5, 12]), "px": 0.1, "w": 100.0, "t": 0.01},
  lambda f, A, S: f(S["mag"], A["mask"], S["px"], S["w"], S["t"]))

# ---- fourier transforms (leading axes are batch axes) -------------------------------------------------------------
for _n in ("ft", "ift", "rft"):
    E("aotools.fouriertransform." + _n, [("data", ["vec_pos", "img2d", "cplx2d", "vec_inc", "img3d"])], lambda r, z: {"d": r.choice([1.0, 0.1, 0.37])},
      lambda f, A, S: f(A["data"], S["d"]),
      batch={"param": "data", "cat": ["img2d", "img3d", "cplx2d"], "item": lambda res, k: res[k]})
E("aotools.fouriertransform.irft", [("data", ["vec_pos", "cplx2d", "img2d"])], lambda r, z: {"d": r.choice([1.0, 0.1])},
  lambda f, A, S: f(A["data"], S["d"]), batch={"param": "data", "cat": "img2d", "item": lambda res, k: res[k]})
for _n in ("ft2", "ift2", "rft2"):
    E("aotools.fouriertransform." + _n, [("data", ["img2d", "cplx2d", "img3d", "mask2d", "cplx3d", "img4d"])], lambda r, z: {"d": r.choice([1.0, 0.1, 0.37])},
      lambda f, A, S: f(A["data"], S["d"]),
      batch={"param": "data", "cat": ["img3d", "img4d", "cplx3d"], "item": lambda res, k: res[k]})
E("aotools.fouriertransform.irft2", [("data", ["cplx2d", "img2d", "img3d", "img4d", "cplx3d"])], lambda r, z: {"d": r.choice([1.0, 0.1])},
  lambda f, A, S: f(A["data"], S["d"]), batch={"param": "data", "cat": ["img3d", "img4d", "cplx3d"], "item": lambda res, k: res[k]})

# ---- functions ------------------------------------------------------------------------------------------------------
E("aotools.functions._functions.gaussian2d", [], lambda r, z: {"size": r.choice([8, [6, 9]]), "width": r.choice([2.0, [1.5, 3.0]]),
                                                            "amp": r.choice([1.0, 7.5]), "cent": r.choice([None, [2, 3.5]])},
  lambda f, A, S: f(S["size"], S["width"], S["amp"], S["cent"]))
E("aotools.functions._functions.gaussian2d#array_centre", [("cent", ["vec_pos"])], lambda r, z: {"size": 8, "width": 2.0},
  lambda f, A, S: f(S["size"], S["width"], 1.0, A["cent"]))
E("aotools.functions.pupil.circle", [], lambda r, z: {"radius": r.choice([0, 1, 2.5, 4]), "size": r.choice([5, 8]),
                                                     "c": r.choice([[0, 0], [0.5, 0.5], [1, -1]]), "o": r.choice(["middle", "corner"])},
  lambda f, A, S: f(S["radius"], S["size"], S["c"], S["o"]))
E("aotools.functions.pupil.circle#array_centre", [("c", ["vec_pos"])], lambda r, z: {"radius": 3, "size": 8},
  lambda f, A, S: f(S["radius"], S["size"], A["c"]))
E("aotools.functions.zernike.zernIndex", [], lambda r, z: {"j": r.randint(1, 40)}, lambda f, A, S: f(S["j"]))
E("aotools.functions.zernike.makegammas", [], lambda r, z: {"n": r.randint(1, 4)}, lambda f, A, S: f(S["n"]))
E("aotools.functions.zernike.zernike_noll", [], lambda r, z: {"j": r.randint(1, 12), "N": 8}, lambda f, A, S: f(S["j"], S["N"]),
  note="raises on this image (numpy.math is gone); same exception again counts as an equal result")
E("aotools.functions.zernike.zernike_nm", [], lambda r, z: {"n": 2, "m": r.choice([0, 2, -2]), "N": 8}, lambda f, A, S: f(S["n"], S["m"], S["N"]))
E("aotools.functions.zernike.zernikeRadialFunc", [("r", ["img2d", "mask2d"])], lambda r, z: {"n": 2, "m": r.choice([0, 2])},
  lambda f, A, S: f(S["n"], S["m"], A["r"]))
E("aotools.functions.zernike.zernikeArray", [], lambda r, z: {"J": r.choice([4, [2, 3, 5]]), "N": 8, "norm": r.choice(["noll", "p2v", "rms"])},
  lambda f, A, S: f(S["J"], S["N"], S["norm"]))
E("aotools.functions.zernike.phaseFromZernikes", [("z", ["vec_pos"])], lambda r, z: {"size": 8}, lambda f, A, S: f(A["z"], S["size"]))
E("aotools.functions.karhunenLoeve.stf_kolmogorov", [("r", ["vec_pos", "img2d", "r32"])], None, lambda f, A, S: f(A["r"]))
E("aotools.functions.karhunenLoeve.stf_vonKarman", [("r", ["vec_pos", "img2d"])], lambda r, z: {"L0": r.choice([10.0, 25.0])},
  lambda f, A, S: f(A["r"], S["L0"]))
E("aotools.functions.karhunenLoeve.stf_vonKarman_yao", [("r", ["vec_pos", "img2d"])], lambda r, z: {"L0": r.choice([10.0, 25.0])},
  lambda f, A, S: f(A["r"], S["L0"]))
E("aotools.functions.karhunenLoeve.rebin", [("a", ["img2d", "mask2d", "cplx2d"])], lambda r, z: {"shape": [z["N"] // 2, z["N"] // 2]},
  lambda f, A, S: f(A["a"], S["shape"]))
E("aotools.functions.karhunenLoeve.gkl_radii", [], lambda r, z: {"ri": r.choice([0.0, 0.25]), "nr": r.choice([6, 10])}, lambda f, A, S: f(S["ri"], S["nr"]))
E("aotools.functions.karhunenLoeve.radii", [], lambda r, z: {"nr": 6, "npp": 12, "ri": r.choice([0.0, 0.25])}, lambda f, A, S: f(S["nr"], S["npp"], S["ri"]))
E("aotools.functions.karhunenLoeve.polang", [("r", ["img2d"])], None, lambda f, A, S: f(A["r"]))
E("aotools.functions.karhunenLoeve.piston_orth", [], lambda r, z: {"nr": r.choice([4, 7])}, lambda f, A, S: f(S["nr"]))
E("aotools.functions.karhunenLoeve.gkl_azimuthal", [], lambda r, z: {"nord": r.choice([3, 5]), "npp": 12}, lambda f, A, S: f(S["nord"], S["npp"]))
E("aotools.functions.karhunenLoeve.gkl_kernel", [], lambda r, z: {"ri": 0.0, "nr": 6, "stf": r.choice(["kolmogorov", "vonKarman"])},
  lambda f, A, S: f(S["ri"], S["nr"], resolve("aotools.functions.karhunenLoeve.gkl_radii")(S["ri"], S["nr"]), S["stf"], 10.0))
def _gkl_fcom(f, A, S):
    import numpy
    kl = importlib.import_module("aotools.functions.karhunenLoeve")
    rad = kl.gkl_radii(S["ri"], S["nr"])
    kern = kl.gkl_kernel(S["ri"], S["nr"], rad, "kolmogorov", None)
    if S["f64"]:
        kern = numpy.asarray(kern, dtype=float)
    keep = kern.copy()
    out = f(S["ri"], kern, S["nfunc"])
    _unchanged("kernels", keep, kern)
    out2 = f(S["ri"], kern, S["nfunc"])          # the same kernel reused for a second decomposition
    return [out[0], out[1], out[2], out2[0]]


E("aotools.functions.karhunenLoeve.gkl_fcom", [], lambda r, z: {"ri": r.choice([0.0, 0.2]), "nr": 8, "nfunc": 6, "f64": r.choice([True, False])}, _gkl_fcom)


def _gkl_sfi(f, A, S):
    kl = importlib.import_module("aotools.functions.karhunenLoeve")
    bas = kl.gkl_basis(S["ri"], 8, None, 6, "kolmogorov")
    keep = dict((k, (v.copy() if hasattr(v, "copy") else v)) for k, v in bas.items())
    out = [f(bas, i) for i in range(1, 4)]
    for k, v in keep.items():
        if hasattr(v, "shape"):
            _unchanged("kl_basis[%r]" % k, v, bas[k])
    return out


E("aotools.functions.karhunenLoeve.gkl_sfi", [], lambda r, z: {"ri": r.choice([0.0, 0.2])}, _gkl_sfi)


# the helpers of make_kl are public too and take dictionaries (basis, geometry) that the caller keeps and reuses
def _dict_snapshot(d):
    return dict((k, (v.copy() if hasattr(v, "copy") and hasattr(v, "shape") else v)) for k, v in d.items())


def _dict_unchanged(name, keep, d):
    import numpy
    if sorted(map(str, keep)) != sorted(map(str, d)):
        raise ArgumentContainerModified("%s (keys)" % name)
    for k, v in keep.items():
        if hasattr(v, "shape"):
            _unchanged("%s[%r]" % (name, k), v, numpy.asarray(d[k]) if not hasattr(d[k], "shape") else d[k])
        elif type(v) is not type(d[k]) or v != d[k]:
            raise ArgumentContainerModified("%s[%r]" % (name, k))


def _dict_items(d):
    return sorted((str(k), v) for k, v in d.items())


def _kl_basis(S):
    kl = importlib.import_module("aotools.functions.karhunenLoeve")
    return kl, kl.gkl_basis(S["ri"], 8, None, 6, "kolmogorov")


def _set_pctr(f, A, S):
    kl, bas = _kl_basis(S)
    keep = _dict_snapshot(bas)
    out = []
    for ncp, ncmar in S["calls"]:                  # the same basis used for several geometries
        out.extend(_dict_items(f(bas, ncp=ncp, ncmar=ncmar)))
        _dict_unchanged("bas", keep, bas)
    return out


def _pol2car(f, A, S):
    kl, bas = _kl_basis(S)
    geom = kl.set_pctr(bas, ncp=S["ncp"], ncmar=S["ncmar"])
    keep = _dict_snapshot(geom)
    out = []
    for i, mask in enumerate(S["masks"]):          # the same geometry used for several functions
        pol = kl.gkl_sfi(bas, 1 + i)
        pk = pol.copy()
        out.append(f(geom, pol, mask) if mask is not None else f(geom, pol))
        _unchanged("pol", pk, pol)
        _dict_unchanged("cpgeom", keep, geom)
    return out


def _setpincs(f, A, S):
    import numpy as np
    kl = importlib.import_module("aotools.functions.karhunenLoeve")
    ncp, nr, npp = S["ncp"], 8, 16
    r = kl.radii(nr, npp, S["ri"])
    ph = kl.polang(r)
    px, py = r * np.cos(ph), r * np.sin(ph)
    ax = (np.reshape(np.arange(ncp * ncp), (ncp, ncp)) % ncp - 0.5 * (ncp - 1)) / (0.5 * (ncp - 4))
    ay = np.transpose(ax)
    keep = [a.copy() for a in (ax, ay, px, py)]
    out = list(f(ax, ay, px, py, S["ri"]))
    for n, k, a in zip(("ax", "ay", "px", "py"), keep, (ax, ay, px, py)):
        _unchanged(n, k, a)
    return out


E("aotools.functions.karhunenLoeve.set_pctr", [], lambda r, z: {"ri": r.choice([0.0, 0.2]), "calls": [[r.choice([12, 16]), r.choice([0, 2, None])] for _ in range(r.randint(1, 3))]}, _set_pctr)
E("aotools.functions.karhunenLoeve.pol2car", [], lambda r, z: {"ri": r.choice([0.0, 0.2]), "ncp": r.choice([12, 16]), "ncmar": r.choice([0, 2]),
                                                                "masks": [r.choice([None, False, True]) for _ in range(r.randint(1, 3))]}, _pol2car)
E("aotools.functions.karhunenLoeve.pcgeom", [], lambda r, z: {"ri": r.choice([0.0, 0.2]), "ncp": r.choice([12, 16]), "ncmar": r.choice([0, 2])},
  lambda f, A, S: _dict_items(f(8, 16, S["ncp"], S["ri"], S["ncmar"])))
E("aotools.functions.karhunenLoeve.setpincs", [], lambda r, z: {"ri": r.choice([0.0, 0.2]), "ncp": r.choice([12, 16])}, _setpincs)
E("aotools.functions.karhunenLoeve.gkl_basis", [], lambda r, z: {"ri": r.choice([0.0, 0.2]), "nr": 8, "nfunc": 6},
  lambda f, A, S: sorted((k, v) for k, v in f(S["ri"], S["nr"], None, S["nfunc"], "kolmogorov").items()))
E("aotools.functions.karhunenLoeve.make_kl", [], lambda r, z: {"nmax": r.choice([3, 5]), "dim": 12, "ri": r.choice([0.0, 0.2]), "mask": r.choice([True, False])},
  lambda f, A, S: f(S["nmax"], S["dim"], S["ri"], 10, "kolmogorov", None, S["mask"])[:3], weight=2.0)

# ---- image processing -------------------------------------------------------------------------------------------------
E("aotools.image_processing.centroiders.centre_of_gravity", [("img", ["img2d", "img3d", "mask2d", "cplx2d"])],
  lambda r, z: {"threshold": r.choice([0, 0, 0.1, 0.5]), "min_threshold": r.choice([0, 0, 5.0])},
  lambda f, A, S: f(A["img"], S["threshold"], S["min_threshold"]),
  batch={"param": "img", "cat": "img3d", "item": lambda res, k: res[:, k], "tag": lambda S: "threshold!=0" if S["threshold"] else "threshold=0"})
E("aotools.image_processing.centroiders.brightest_pixel", [("img", ["img2d", "img3d"])], lambda r, z: {"threshold": r.choice([0.1, 0.3, 0.5])},
  lambda f, A, S: f(A["img"], S["threshold"]),
  batch={"param": "img", "cat": "img3d", "item": lambda res, k: res[:, k]})
E("aotools.image_processing.centroiders.quadCell", [("img", ["img2d", "img3d", "cplx2d", "cplx3d", "img4d"])], None, lambda f, A, S: f(A["img"][..., :2, :2]),
  batch={"param": "img", "cat": ["img3d", "img4d", "cplx3d"], "item": lambda res, k: res[:, k]})
E("aotools.image_processing.centroiders.correlation_centroid", [("im", ["img3d", "img2d", "cplx3d", "cplx2d"]), ("ref", ["img2d", "cplx2d"])],
  lambda r, z: {"threshold": r.choice([0.0, 0.0, 0.3]), "padding": r.choice([1, 2])},
  lambda f, A, S: f(A["im"], A["ref"], S["threshold"], S["padding"]),
  batch={"param": "im", "cat": "img3d", "item": lambda res, k: res[:, k], "item_res": lambda res: res[:, 0]})
E("aotools.image_processing.centroiders.cross_correlate", [("x", ["img2d", "mask2d", "cplx2d"]), ("y", ["img2d", "cplx2d"])], lambda r, z: {"padding": r.choice([1, 2])},
  lambda f, A, S: f(A["x"], A["y"], S["padding"]))
E("aotools.image_processing.contrast.image_contrast", [("image", ["img2d", "img3d", "mask2d"])], None, lambda f, A, S: f(A["image"]))
E("aotools.image_processing.contrast.rms_contrast", [("image", ["img2d", "img3d", "mask2d", "cplx2d"])], None, lambda f, A, S: f(A["image"]))
E("aotools.image_processing.psf.azimuthal_average", [("data", ["img2d", "mask2d", "cplx2d"])], None, lambda f, A, S: f(A["data"]))
E("aotools.image_processing.psf.encircled_energy", [("data", ["img2d", "mask2d"])],
  lambda r, z: {"fraction": r.choice([0.5, 0.8]), "center": r.choice([None, None, [3, 3]]), "d": r.choice([True, False, False, False])},   # d=False returns the whole curve
  lambda f, A, S: f(A["data"], S["fraction"], S["center"], S["d"]))

# ---- interpolation ------------------------------------------------------------------------------------------------------
E("aotools.interpolation.binImgs", [("data", ["img2d", "img3d", "mask2d", "cplx2d", "cplx3d", "img4d"])], lambda r, z: {"n": 2}, lambda f, A, S: f(A["data"], S["n"]),
  batch={"param": "data", "cat": ["img3d", "img4d", "cplx3d"], "item": lambda res, k: res[k]})
E("aotools.interpolation.zoom", [("array", ["img2d", "cplx2d"])], lambda r, z: {"size": r.choice([12, [10, 14]]), "order": r.choice([1, 3])},
  lambda f, A, S: f(A["array"], S["size"], S["order"]), note="raises on this image (scipy.interpolate.interp2d is gone)")
E("aotools.interpolation.zoom_rbs", [("array", ["img2d", "cplx2d"])], lambda r, z: {"size": r.choice([[12, 12], [10, 14], 12]), "order": r.choice([1, 3])},
  lambda f, A, S: f(A["array"], S["size"], S["order"]))

# ---- optical propagation ----------------------------------------------------------------------------------------------
E("aotools.opticalpropagation.angularSpectrum", [("u", ["cplx2d", "img2d"])],
  lambda r, z: {"wvl": 5e-7, "d1": 0.01, "d2": r.choice([0.01, 0.02]), "z": r.choice([0, 10.0, 1000.0])},
  lambda f, A, S: f(A["u"], S["wvl"], S["d1"], S["d2"], S["z"]))
E("aotools.opticalpropagation.oneStepFresnel", [("u", ["cplx2d", "img2d"])], lambda r, z: {"wvl": 5e-7, "d1": 0.01, "z": r.choice([10.0, 1000.0])},
  lambda f, A, S: f(A["u"], S["wvl"], S["d1"], S["z"]))
E("aotools.opticalpropagation.twoStepFresnel", [("u", ["cplx2d", "img2d"])],
  lambda r, z: {"wvl": 5e-7, "d1": 0.01, "d2": r.choice([0.02, 0.005]), "z": r.choice([10.0, 1000.0])},
  lambda f, A, S: f(A["u"], S["wvl"], S["d1"], S["d2"], S["z"]))
E("aotools.opticalpropagation.lensAgainst", [("u", ["cplx2d", "img2d"])], lambda r, z: {"wvl": 5e-7, "d1": 0.01, "f": r.choice([1.0, 10.0])},
  lambda f, A, S: f(A["u"], S["wvl"], S["d1"], S["f"]))

# ---- turbulence: conversions ---------------------------------------------------------------------------------------------
for _n in ("cn2_to_seeing", "cn2_to_r0", "r0_to_cn2", "r0_to_seeing", "seeing_to_r0", "seeing_to_cn2"):
    E("aotools.turbulence.atmos_conversions." + _n, [("x", ["vec_pos"])], lambda r, z: {"lam": r.choice([5e-7, 1.65e-6])},
      lambda f, A, S: f(A["x"], S["lam"]))
E("aotools.turbulence.atmos_conversions.coherenceTime", [("cn2", ["vec_pos", "img2d"]), ("v", ["vec_pos"])], lambda r, z: {"lam": 5e-7},
  lambda f, A, S: f(A["cn2"][..., :len(A["v"])] if A["cn2"].ndim > 1 else A["cn2"], A["v"][:A["cn2"].shape[-1]], S["lam"]))
E("aotools.turbulence.atmos_conversions.isoplanaticAngle", [("cn2", ["vec_pos"]), ("h", ["vec_inc"])], lambda r, z: {"lam": 5e-7},
  lambda f, A, S: f(A["cn2"], A["h"], S["lam"]))
E("aotools.turbulence.atmos_conversions.rytov_variance", [("cn2", ["vec_pos"]), ("h", ["vec_inc"])], lambda r, z: {"lam": 5e-7},
  lambda f, A, S: f(A["cn2"], A["h"], S["lam"]))
E("aotools.turbulence.atmos_conversions.r0_from_slopes", [("slopes", ["slopes3"])], lambda r, z: {"wl": 5e-7, "d": 0.5},
  lambda f, A, S: f(A["slopes"], S["wl"], S["d"]))
E("aotools.turbulence.atmos_conversions.slope_variance_from_r0", [("r0", ["vec_pos"])], lambda r, z: {"wl": 5e-7, "d": 0.5},
  lambda f, A, S: f(A["r0"], S["wl"], S["d"]))

# ---- turbulence: screens ----------------------------------------------------------------------------------------------------
_SCR = lambda r, z: {"r0": 0.15, "N": r.choice([8, 16]), "delta": 0.05, "L0": 20.0, "l0": 0.01, "seed": r.choice([0, 1, 7, 12345])}
E("aotools.turbulence.phasescreen.ft_phase_screen", [], _SCR, lambda f, A, S: f(S["r0"], S["N"], S["delta"], S["L0"], S["l0"], seed=S["seed"]))
E("aotools.turbulence.phasescreen.ft_sh_phase_screen", [], _SCR, lambda f, A, S: f(S["r0"], S["N"], S["delta"], S["L0"], S["l0"], seed=S["seed"]))
E("aotools.turbulence.phasescreen.ft_phase_screen#unseeded", [], _SCR, lambda f, A, S: f(S["r0"], S["N"], S["delta"], S["L0"], S["l0"]), random=True)
E("aotools.turbulence.phasescreen.ft_sh_phase_screen#unseeded", [], _SCR, lambda f, A, S: f(S["r0"], S["N"], S["delta"], S["L0"], S["l0"]), random=True)
E("aotools.turbulence.phasescreen.ift2", [("G", ["cplx2d", "img2d"])], lambda r, z: {"d": r.choice([1.0, 0.1])}, lambda f, A, S: f(A["G"], S["d"]))
E("aotools.turbulence.infinitephasescreen.find_allowed_size", [], lambda r, z: {"n": r.randint(1, 70)}, lambda f, A, S: f(S["n"]))


def _vk(f, A, S):
    s = f(S["nx"], 0.1, 0.2, 5.0, random_seed=S["seed"], n_columns=S["k"])
    out = [s.scrn.copy()]
    for _ in range(S["rows"]):
        out.append(s.add_row().copy())
    _restart_replays(s, S, out)
    return out


def _kol(f, A, S):
    s = f(S["nx"], 0.1, 0.2, 5.0, random_seed=S["seed"], stencil_length_factor=S["k"])
    out = [s.scrn.copy()]
    for _ in range(S["rows"]):
        out.append(s.add_row().copy())
    _restart_replays(s, S, out)
    return out


def _restart_replays(s, S, out):
    """the same call (make_initial_screen with the same seed, then the same number of add_row) made twice on one object must
    return equal results"""
    import numpy
    if not S.get("restart"):
        return
    s.make_initial_screen()
    again = [s.scrn.copy()]
    for _ in range(S["rows"]):
        again.append(s.add_row().copy())
    for k, (a, b) in enumerate(zip(out, again)):
        if a.shape != b.shape or not numpy.array_equal(a, b):
            raise HiddenStateDetected("make_initial_screen() + %d x add_row() repeated on the same object differs from the first time at row %d" % (S["rows"], k))


E("aotools.turbulence.infinitephasescreen.PhaseScreenVonKarman", [],
  lambda r, z: {"nx": r.choice([6, 9]), "seed": r.choice([0, 3, 99]), "k": r.choice([1, 2]), "rows": r.randint(0, 3), "restart": r.choice([False, True])}, _vk, weight=3.0)
E("aotools.turbulence.infinitephasescreen.PhaseScreenKolmogorov", [],
  lambda r, z: {"nx": r.choice([5, 7]), "seed": r.choice([0, 3, 99]), "k": r.choice([1, 2]), "rows": r.randint(0, 3), "restart": r.choice([False, True])}, _kol, weight=3.0)
E("aotools.turbulence.turb.phase_covariance", [("r", ["vec_pos", "img2d", "r32", "vec_inc"])], lambda r, z: {"r0": 0.15, "L0": r.choice([10.0, 25.0])},
  lambda f, A, S: f(A["r"], S["r0"], S["L0"]))

# ---- turbulence: profile compression -----------------------------------------------------------------------------------------
E("aotools.turbulence.profile_compression.equivalent_layers", [("h", ["vec_inc"]), ("p", ["vec_pos"]), ("w", ["vec_pos", None])],
  lambda r, z: {"L": r.randint(1, max(1, z["M"] - 1))}, lambda f, A, S: f(A["h"], A["p"], S["L"], A.get("w")))
E("aotools.turbulence.profile_compression.optimal_grouping", [("h", ["vec_inc"]), ("p", ["vec_pos"])],
  lambda r, z: {"R": r.choice([0, 1, 3]), "L": r.randint(2, max(2, z["M"] - 1))}, lambda f, A, S: f(S["R"], S["L"], A["h"], A["p"]),
  note="uses NumPy's global RNG for restarts; the simulator pins the global state before every call, which makes calls comparable")
E("aotools.turbulence.profile_compression.GCTM", [("h", ["vec_inc"]), ("p", ["vec_pos"])], lambda r, z: {"L": r.randint(1, 3)},
  lambda f, A, S: f(A["h"], A["p"] * 1e-15, S["L"]))

# ---- turbulence: slope covariance ----------------------------------------------------------------------------------------------
E("aotools.turbulence.slopecovariance.calculate_structure_function", [("phase", ["img2d", "mask2d", "cplx2d"])],
  lambda r, z: {"n": r.choice([None, 3]), "step": r.choice([None, 1, 2])}, lambda f, A, S: f(A["phase"], S["n"], S["step"]))
E("aotools.turbulence.slopecovariance.calculate_wfs_seperations", [("p1", ["pos"]), ("p2", ["pos"])], None,
  lambda f, A, S: f(len(A["p1"]), len(A["p2"]), A["p1"], A["p2"]))
for _n in ("compute_covariance_xx", "compute_covariance_yy", "compute_covariance_xy"):
    E("aotools.turbulence.slopecovariance." + _n, [("sep", ["sep"])], lambda r, z: {"d1": 0.5, "d2": r.choice([0.5, 0.4]), "r0": 0.2, "L0": 25.0},
      lambda f, A, S: f(A["sep"], S["d1"], S["d2"], S["r0"], S["L0"]))
E("aotools.turbulence.slopecovariance.structure_function_vk", [("s", ["vec_pos", "img2d"])], lambda r, z: {"r0": 0.2, "L0": 25.0},
  lambda f, A, S: f(A["s"], S["r0"], S["L0"]))
E("aotools.turbulence.slopecovariance.structure_function_kolmogorov", [("s", ["vec_pos", "img2d"])], lambda r, z: {"r0": 0.2},
  lambda f, A, S: f(A["s"], S["r0"]))
E("aotools.turbulence.slopecovariance.wfs_covariance", [("p1", ["pos"]), ("p2", ["pos"])], lambda r, z: {"d1": 0.5, "d2": r.choice([0.5, 0.4]), "r0": 0.2, "L0": 25.0},
  lambda f, A, S: f(len(A["p1"]), len(A["p2"]), A["p1"], A["p2"], S["d1"], S["d2"], S["r0"], S["L0"]))
E("aotools.turbulence.slopecovariance.wfs_covariance_mpwrap", [("p1", ["pos"]), ("p2", ["pos"])], lambda r, z: {"d1": 0.5, "r0": 0.2, "L0": 25.0},
  lambda f, A, S: f((len(A["p1"]), len(A["p2"]), A["p1"], A["p2"], S["d1"], S["d1"], S["r0"], S["L0"])))
E("aotools.turbulence.slopecovariance.mirror_covariance_matrix", [("c", ["cov32"])], None, lambda f, A, S: f(A["c"]))
E("aotools.turbulence.slopecovariance.create_tomographic_covariance_reconstructor", [("c", ["cov32"])],
  lambda r, z: {"n": r.choice([1, 2]), "cond": r.choice([0, 1e-3])}, lambda f, A, S: f(A["c"], S["n"], S["cond"]))


_OMIT = {}


def omit_defaults(f):
    """f with every argument that only says 'use the default' left out of the call (a value of None for a parameter that
    has a default, or a number/bool/string equal to the parameter's default): the function then uses its own default
    objects, which is how most callers call it. Functions without an introspectable signature are returned unchanged."""
    if f in _OMIT:
        return _OMIT[f]
    import inspect
    try:
        sig = inspect.signature(f)
    except (TypeError, ValueError):
        _OMIT[f] = f
        return f
    plain = (int, float, bool, str, type(None))

    def g(*a, **k):
        try:
            b = sig.bind(*a, **k)
        except TypeError:
            return f(*a, **k)
        args, kw = [], {}
        positional = True
        for name, par in sig.parameters.items():
            if name not in b.arguments:
                positional = False
                continue
            val = b.arguments[name]
            if par.kind in (par.VAR_POSITIONAL, par.VAR_KEYWORD):
                return f(*a, **k)
            drop = par.default is not par.empty and (val is None or (type(par.default) in plain and type(val) is type(par.default)
                                                                      and val == par.default))
            if drop:
                positional = False
                continue
            if positional and par.kind in (par.POSITIONAL_ONLY, par.POSITIONAL_OR_KEYWORD):
                args.append(val)
            else:
                kw[name] = val
        return f(*args, **kw)
    _OMIT[f] = g
    return g


class HiddenStateDetected(Exception):
    """raised by a call wrapper when the same call repeated on the same object gives another result"""


class ArgumentContainerModified(Exception):
    """a list passed as an argument came back with other elements"""


def _unchanged(name, before, after):
    import numpy
    if not (before.shape == after.shape and before.dtype == after.dtype and numpy.array_equal(before, after, equal_nan=True)):
        raise ArgumentContainerModified(name)


def _covmat(f, A, S):
    masks = [A["m1"], A["m2"]]
    nl = int(S.get("layers", 2))
    c = f(2, masks, 4.0, A["diam"][:2], [0, 90000.], A["gs"][:2], A["wl"][:2] * 1e-7, nl, A["alt"][:nl], A["r0s"][:nl], A["L0s"][:nl] + 10., S["threads"])
    m1 = c.make_covariance_matrix().copy()
    r = c.make_tomographic_reconstructor(S["cond"])
    if len(masks) != 2 or masks[0] is not A["m1"] or masks[1] is not A["m2"]:
        raise ArgumentContainerModified("pupil_masks")
    return [m1, r]


E("aotools.turbulence.slopecovariance.CovarianceMatrix",
  [("m1", ["mask2d"]), ("m2", ["mask2d"]), ("diam", ["vec_pos"]), ("gs", ["pos"]), ("wl", ["vec_pos"]), ("alt", ["vec_inc"]), ("r0s", ["vec_pos"]), ("L0s", ["vec_pos"])],
  lambda r, z: {"threads": r.choice([1, 1, 2, 3, 5, 8]), "layers": r.choice([1, 2, 3, 4]), "cond": r.choice([0, 1e-3])}, _covmat, weight=5.0)

# ---- turbulence: temporal power spectra ---------------------------------------------------------------------------------------
E("aotools.turbulence.temporal_ps.calc_slope_temporalps", [("s", ["img2d", "img3d", "cplx2d", "img4d"])], None, lambda f, A, S: f(A["s"]),
  batch={"param": "s", "cat": ["img3d", "img4d"], "item": lambda res, k: [res[0][k], res[1][k]]})
E("aotools.turbulence.temporal_ps.get_tps_time_axis", [], lambda r, z: {"rate": r.choice([100.0, 500.0]), "n": r.choice([16, 33])},
  lambda f, A, S: f(S["rate"], S["n"]))

# ---- wfs ---------------------------------------------------------------------------------------------------------------------------
E("aotools.wfs.wfslib.findActiveSubaps", [("mask", ["mask2d", "img2d"])], lambda r, z: {"n": 2, "thr": r.choice([0.3, 0.6]), "fill": r.choice([True, False])},
  lambda f, A, S: f(S["n"], A["mask"], S["thr"], S["fill"]))
E("aotools.wfs.wfslib.computeFillFactor", [("mask", ["mask2d", "img2d"]), ("pos", ["pos"])], lambda r, z: {"sp": 2},
  lambda f, A, S: f(A["mask"], abs(A["pos"]) % (A["mask"].shape[0] - 2), S["sp"]))
E("aotools.wfs.wfslib.make_subaps_2d", [("data", ["frames"]), ("mask", ["mask2d"])], None, lambda f, A, S: f(A["data"], A["mask"]))

EXCLUDED = {
    "aotools.turbulence.temporal_ps.plot_tps": "opens a matplotlib window (pyplot.show)",
    "aotools.turbulence.temporal_ps.fit_tps": "prints and calls a helper that does not exist in the module",
    "aotools.turbulence.infinitephasescreen.calc_seperations_fast": "documented output parameter (numba kernel, positions -> out)",
    "aotools.turbulence.infinitephasescreen.PhaseScreen": "abstract base class without constructor",
}

# (the helpers of make_kl used to be covered through their parent only; they have entries of their own now)
VIA_PARENT = []


def public_callables():
    """every public function / class reachable from aotools and its sub-packages (private modules' own names included,
    `_version` excluded)"""
    import inspect
    import pkgutil
    import aotools
    seen = {}
    for m in [aotools] + [importlib.import_module(x.name) for x in pkgutil.walk_packages(aotools.__path__, "aotools.") if "_version" not in x.name]:
        for name in dir(m):
            if name.startswith("_"):
                continue
            obj = getattr(m, name)
            if (inspect.isfunction(obj) or inspect.isclass(obj)) and getattr(obj, "__module__", "").startswith("aotools") \
                    and "_version" not in obj.__module__:
                seen[obj.__module__ + "." + obj.__name__] = obj
    # numba dispatchers are not plain functions
    try:
        from aotools.turbulence import infinitephasescreen
        seen["aotools.turbulence.infinitephasescreen.calc_seperations_fast"] = infinitephasescreen.calc_seperations_fast
    except Exception:
        pass
    return seen


def coverage_report():
    pub = public_callables()
    covered = set(e["name"].split("#")[0] for e in ENTRIES)
    uncovered = sorted(k for k in pub if k not in covered and k not in EXCLUDED and k not in VIA_PARENT)
    return {"public_callables": len(pub), "with_registry_entry": len([k for k in pub if k in covered]),
            "excluded_with_reason": dict((k, v) for k, v in EXCLUDED.items() if k in pub),
            "covered_through_parent": [k for k in VIA_PARENT if k in pub], "uncovered": uncovered}
