#!/bin/sh
# Offline setup: nothing is built or downloaded. Verify that the interpreter and the
# dependencies the checks need are present and that /repo's working tree is importable.
set -e
cd "$(dirname "$0")"
export NUMBA_NUM_THREADS=4 NUMBA_THREADING_LAYER=workqueue OPENBLAS_NUM_THREADS=1 OMP_NUM_THREADS=1 PYTHONDONTWRITEBYTECODE=1 MPLBACKEND=Agg
PYTHONPATH=/repo timeout 300 /venv/bin/python -c "
import numpy, scipy, numba
import aotools, os
assert os.path.realpath(aotools.__file__).startswith('/repo/'), aotools.__file__
print('setup ok: numpy', numpy.__version__, 'scipy', scipy.__version__, 'numba', numba.__version__)
"
mkdir -p evidence replays
