#!/usr/bin/env python3-vt
"""development helper: validate MANIFEST.json and evidence/*.json against the given schemas"""
import glob, json, sys
import jsonschema
ok = True
m = json.load(open('/verif/MANIFEST.json'))
jsonschema.validate(m, json.load(open('/root/.vp/MANIFEST.schema.json')))
props = [json.loads(l)['id'] for l in open('/verif/properties.jsonl')]
claimed = [c['property_id'] for c in m['checks']]
na = [c['property_id'] for c in m.get('not_applicable', [])]
assert sorted(claimed + na) == sorted(props), (sorted(claimed + na), props)
es = json.load(open('/root/.vp/EVIDENCE.schema.json'))
for f in sorted(glob.glob('/verif/evidence/*.json')):
    try:
        jsonschema.validate(json.load(open(f)), es); print('valid', f)
    except Exception as e:
        ok = False; print('INVALID', f, str(e)[:300])
print('manifest valid; claimed', claimed)
sys.exit(0 if ok else 1)
