#!/usr/bin/env python3
"""regenerate seeded/INDEX.md from the meta.json files"""
import glob, json, os
rows = []
for m in sorted(glob.glob('/verif/seeded/[!_]*/meta.json')):
    d = json.load(open(m))
    ran = d.get("ran", {})
    viol = [l for l in ran.get("check_lines", []) if l.startswith("violation:")]
    rows.append((d["name"], d["property"], ran.get("check_cmd", "").replace("VERIF_REPO=<changed tree> ", ""), "yes" if ran.get("caught") else "NO",
                 ran.get("replay_steps", ""), (viol[0].split("::")[0].replace("violation:", "").strip() if viol else ""), d.get("needs_to_manifest") or ""))
with open('/verif/seeded/INDEX.md', 'w') as f:
    f.write("# Seeded changes (independent sub-agents; each confirmed in scratch copies: patch applies, suite unchanged, demo passes without / fails with the change)\n\n")
    f.write("| id | breaks | check that was run | caught | replay steps (original -> minimised) | first violation signature | needs, in order to manifest |\n|---|---|---|---|---|---|---|\n")
    for r in rows:
        f.write("| " + " | ".join(str(x).replace("|", "/") for x in r) + " |\n")
    f.write("\n%d changes, %d caught. Changes judged not to break the stated property are under `_not_kept/` with the reason.\n" % (len(rows), sum(1 for r in rows if r[3] == "yes")))
print(len(rows), "seeds;", sum(1 for r in rows if r[3] == "yes"), "caught")
