# development helper: create a mutant/quiet patch by transforming one file in the scratch worktree /tmp/mw
# (git -C /repo worktree add --detach /tmp/mw HEAD; python3 selftest/mkmut.py <ID-name | QID-name> <path> <<< "s = s.replace(...)")
import subprocess, sys, os
# usage: mkmut.py name file  <<< python code performing s = transform(s)
name, path = sys.argv[1], sys.argv[2]
code = sys.stdin.read()
full = os.path.join('/tmp/mw', path)
s = open(full).read()
g = {'s': s}
exec(code, g)
assert g['s'] != s, "no change"
open(full, 'w').write(g['s'])
kind = 'quiet' if name.startswith('Q') else 'mutants'
out = '/verif/selftest/%s/%s.patch' % (kind, name[1:] if name.startswith('Q') else name)
os.makedirs(os.path.dirname(out), exist_ok=True)
d = subprocess.run(['git','-C','/tmp/mw','diff'], capture_output=True, text=True).stdout
open(out,'w').write(d)
subprocess.run(['git','-C','/tmp/mw','checkout','--','.'])
print(out, len(d.splitlines()), 'lines')
