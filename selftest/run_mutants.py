#!/venv/bin/python
"""
Sensitivity self-test (development tool, not a registered check).

For every patch in selftest/mutants/<ID>-*.patch (or seeded/<name>/patch.diff):
  1. copy /repo's working tree to a scratch directory under $TMPDIR (removed afterwards)
  2. apply the patch there
  3. (optional, --tests) run the repository's own test suite on the copy: it must still pass
  4. run `check <ID> --tier quick` with VERIF_REPO pointing at the copy
expected: exit 1 with a VIOLATION line for 'mutants', exit 0 for patches under selftest/quiet/ (legal refactors).

usage: run_mutants.py [ID ...] [--tests] [--only substring]
"""
import glob
import json
import os
import shutil
import subprocess
import sys
import tempfile
import time

HERE = os.path.dirname(os.path.abspath(__file__))
VERIF = os.path.dirname(HERE)
BASE_TESTS = ("cd {d} && /venv/bin/python -m pytest -q -p no:cacheprovider -x --timeout=900 "
              "--deselect test/test_interpolation.py::test_zoom --deselect test/test_interpolation.py::test_zoom_with_complex "
              "--deselect test/test_interpolation.py::test_zoom_with_order --ignore test/test_zernike.py")


def scratch_copy():
    d = tempfile.mkdtemp(prefix="aot-mut-", dir=os.environ.get("TMPDIR", "/tmp"))
    subprocess.run("cd /repo && git ls-files -z | xargs -0 cp --parents -t %s" % d, shell=True, check=True)
    # include uncommitted edits of tracked files (cp above copies the working tree versions)
    return d


def run_one(patch, pid, expect_violation, with_tests, tier="quick"):
    d = scratch_copy()
    rec = {"patch": os.path.relpath(patch, VERIF), "property": pid}
    try:
        p = subprocess.run(["git", "apply", "--directory", d, "--unsafe-paths", patch], cwd="/", capture_output=True, text=True)
        if p.returncode != 0:
            p = subprocess.run(["patch", "-p1", "-d", d, "-i", patch], capture_output=True, text=True)
        if p.returncode != 0:
            rec["error"] = "patch does not apply: " + p.stderr[-300:] + p.stdout[-300:]
            return rec
        notests = "expect-tests: fail" in open(patch).read(400)
        if with_tests and not notests:
            t = subprocess.run(BASE_TESTS.format(d=d), shell=True, capture_output=True, text=True)
            rec["tests_pass"] = t.returncode == 0
            rec["tests_tail"] = t.stdout.strip().splitlines()[-1:] if t.stdout else []
        env = dict(os.environ, VERIF_REPO=d, VERIF_EVIDENCE_DIR=os.path.join(d, "_evidence"), VERIF_REPLAY_DIR=os.path.join(d, "_replays"))
        t0 = time.time()
        c = subprocess.run([os.path.join(VERIF, "check"), pid, "--tier", tier], env=env, capture_output=True, text=True,
                           timeout=3000)
        rec["check_rc"] = c.returncode
        rec["wall_s"] = round(time.time() - t0, 1)
        rec["lines"] = [l for l in c.stdout.splitlines() if l.startswith(("VIOLATION", "violation:", "KNOWN", "HARNESS", "OK"))][:6]
        if c.returncode == 2:
            rec["stderr"] = (c.stdout[-1500:] + c.stderr[-1500:])
        rec["as_expected"] = (c.returncode == 1) if expect_violation else (c.returncode == 0)
        # replay must reproduce in a fresh process
        if expect_violation and c.returncode == 1:
            for l in c.stdout.splitlines():
                if l.startswith("VIOLATION"):
                    path = l.split("replay=")[1].strip()
                    r = subprocess.run([os.path.join(VERIF, "check"), pid, "--replay", path], env=env, capture_output=True,
                                       text=True, timeout=900)
                    rec["replay_rc"] = r.returncode
                    try:
                        rp = json.load(open(path))
                        rec["replay_steps"] = "%s -> %d" % (rp.get("original_steps"), len(rp["plan"].get("steps", [])))
                    except Exception:
                        pass
                    if "expect-replay: flaky" not in open(patch).read(600):
                        rec["as_expected"] = rec["as_expected"] and r.returncode == 1
                    break
    finally:
        shutil.rmtree(d, ignore_errors=True)
    return rec


def main(argv):
    with_tests = "--tests" in argv
    cross = "--cross" in argv         # quiet patches against EVERY property's check (a legal refactor must alarm nobody)
    only = None
    if "--only" in argv:
        only = argv[argv.index("--only") + 1]
    ids = [a.upper() for a in argv if not a.startswith("--") and a != only]
    jobs = []
    for kind, expect in (("mutants", True), ("quiet", False)):
        for p in sorted(glob.glob(os.path.join(HERE, kind, "*.patch"))):
            pid = os.path.basename(p).split("-")[0].upper()
            jobs.append((p, pid, expect))
    for m in sorted(glob.glob(os.path.join(VERIF, "seeded", "[!_]*", "meta.json"))):
        meta = json.load(open(m))
        jobs.append((os.path.join(os.path.dirname(m), "patch.diff"), meta["property"].upper(), True))
    if cross:
        def alarms(p):
            head = open(p).read(400)
            return head.split("cross-alarms:")[1].split()[0] if "cross-alarms:" in head else ""
        jobs = [(p, q, q in alarms(p)) for (p, pid, expect) in jobs if not expect for q in ("C03", "C05", "C06", "C18", "C20") if q != pid]
    bad = 0
    for p, pid, expect in jobs:
        if ids and pid not in ids:
            continue
        if only and only not in p:
            continue
        rec = run_one(p, pid, expect, with_tests)
        ok = rec.get("as_expected") and (not with_tests or rec.get("tests_pass", True))
        bad += 0 if ok else 1
        print(("PASS " if ok else "FAIL ") + json.dumps(rec), flush=True)
    return 1 if bad else 0


if __name__ == "__main__":
    sys.exit(main(sys.argv[1:]))
