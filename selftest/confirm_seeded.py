#!/venv/bin/python
"""
Confirm a change proposed by an independent sub-agent and file it under /verif/seeded/<name>/.

usage: confirm_seeded.py <dir with patch.diff, demo.py, notes.md> <PROPERTY> [--tier quick|thorough] [--keep-as NAME]

Steps (all in scratch copies of /repo's HEAD under $TMPDIR, removed afterwards):
  1. demo.py on the unchanged tree must exit 0
  2. patch applies; the repository's suite gives the baseline result (83 passed, the 10 environment failures)
  3. demo.py on the changed tree must exit non-zero
  4. `check <PROPERTY>` with VERIF_REPO=<changed tree>: records rc, violation lines, replay reproduction
"""
import json
import os
import shutil
import subprocess
import sys
import tempfile

VERIF = os.path.dirname(os.path.dirname(os.path.abspath(__file__)))
ENV = dict(os.environ, NUMBA_THREADING_LAYER="workqueue", NUMBA_NUM_THREADS="1", OMP_NUM_THREADS="1", OPENBLAS_NUM_THREADS="1", MPLBACKEND="Agg")


def scratch():
    d = tempfile.mkdtemp(prefix="aot-seed-", dir=os.environ.get("TMPDIR", "/tmp"))
    subprocess.run("cd /repo && git ls-files -z | xargs -0 cp --parents -t %s" % d, shell=True, check=True)
    return d


def run_demo(tree, demo):
    p = subprocess.run(["timeout", "300", "/venv/bin/python", demo], env=dict(ENV, PYTHONPATH=tree), capture_output=True, text=True, cwd=tree)
    return p.returncode, (p.stdout + p.stderr)[-400:]


def suite(tree):
    p = subprocess.run("cd %s && timeout 1200 /venv/bin/python -m pytest -q -p no:cacheprovider --timeout=900 test/ 2>&1 | tail -1" % tree,
                       shell=True, env=ENV, capture_output=True, text=True)
    return p.stdout.strip()


def main(argv):
    src, pid = argv[0], argv[1].upper()
    tier = argv[argv.index("--tier") + 1] if "--tier" in argv else "quick"
    name = argv[argv.index("--keep-as") + 1] if "--keep-as" in argv else os.path.basename(src.rstrip("/"))
    rec = {"property": pid, "source": "independent sub-agent given only the property text and a scratch worktree", "name": name}
    clean, mut = scratch(), scratch()
    try:
        rc0, out0 = run_demo(clean, os.path.join(src, "demo.py"))
        rec["demo_on_unchanged_tree_rc"] = rc0
        a = subprocess.run(["git", "apply", "--directory", mut, "--unsafe-paths", os.path.join(src, "patch.diff")], cwd="/", capture_output=True, text=True)
        if a.returncode != 0:
            a = subprocess.run(["patch", "-p1", "-d", mut, "-i", os.path.join(src, "patch.diff")], capture_output=True, text=True)
        rec["patch_applies"] = a.returncode == 0
        rec["suite_with_change"] = suite(mut)
        rc1, out1 = run_demo(mut, os.path.join(src, "demo.py"))
        rec["demo_on_changed_tree_rc"] = rc1
        rec["demo_tail_changed"] = out1[-300:]
        env = dict(os.environ, VERIF_REPO=mut, VERIF_EVIDENCE_DIR=os.path.join(mut, "_e"), VERIF_REPLAY_DIR=os.path.join(mut, "_r"))
        c = subprocess.run([os.path.join(VERIF, "check"), pid, "--tier", tier], env=env, capture_output=True, text=True, timeout=7000)
        rec["check_cmd"] = "VERIF_REPO=<changed tree> ./check %s --tier %s" % (pid, tier)
        rec["check_rc"] = c.returncode
        rec["check_lines"] = [l[:400] for l in c.stdout.splitlines() if l.startswith(("VIOLATION", "violation:", "HARNESS", "OK"))][:6]
        if c.returncode == 1:
            for l in c.stdout.splitlines():
                if l.startswith("VIOLATION"):
                    path = l.split("replay=")[1].strip()
                    r = subprocess.run([os.path.join(VERIF, "check"), pid, "--replay", path], env=env, capture_output=True, text=True, timeout=900)
                    rec["replay_rc_fresh_process"] = r.returncode
                    try:
                        rp = json.load(open(path))
                        rec["replay_steps"] = "%s -> %s" % (rp.get("original_steps"), len(rp["plan"].get("steps") or []))
                    except Exception:
                        pass
                    break
        rec["confirmed_valid_seed"] = bool(rc0 == 0 and rec["patch_applies"] and rc1 != 0 and "83 passed" in rec["suite_with_change"] and "10 failed" in rec["suite_with_change"])
        rec["caught"] = c.returncode == 1
    finally:
        shutil.rmtree(clean, ignore_errors=True)
        shutil.rmtree(mut, ignore_errors=True)
    print(json.dumps(rec, indent=1))
    if rec.get("confirmed_valid_seed"):
        dst = os.path.join(VERIF, "seeded", name)
        os.makedirs(dst, exist_ok=True)
        for f in ("patch.diff", "demo.py", "notes.md"):
            if os.path.exists(os.path.join(src, f)):
                shutil.copy(os.path.join(src, f), os.path.join(dst, f))
        meta = {"property": pid, "name": name, "needs_to_manifest": None, "ran": rec}
        old = os.path.join(dst, "meta.json")
        if os.path.exists(old):
            try:
                meta["needs_to_manifest"] = json.load(open(old)).get("needs_to_manifest")
            except Exception:
                pass
        json.dump(meta, open(old, "w"), indent=1)
    return 0


if __name__ == "__main__":
    sys.exit(main(sys.argv[1:]))
