#!/usr/bin/env python3
"""development helper: (re)generate MANIFEST.json from one table, so it stays valid and consistent"""
import json

BASELINE = "cd /repo && /venv/bin/python -m pytest -ra -q -p no:cacheprovider --timeout=900 --continue-on-collection-errors"

PURE = "pure function of its input - no schedule, clock, fault, shared state or call history in the statement; deterministic simulation with fault injection has nothing to decide (DESIGN.md section 9)"
NA = {
 "C01": "slope covariance equals the analytic covariance: " + PURE + ". Its multi-process mechanism is covered by C03 (mp == sp bitwise).",
 "C02": "minimum-variance reconstructor identity over PSD matrices: " + PURE,
 "C04": "conditional von Karman law of new rows (matrix identities per configuration): " + PURE + ". For the von Karman variant it is exercised as a by-product of C05's scripted-randomness stage.",
 "C07": "ensemble statistics of FFT screens: with the RNG behind a seam it is a pure function of (parameters, draws); no time or interleaving. " + PURE,
 "C08": "closed-form statistics mutually consistent: " + PURE,
 "C09": "Fourier transform pairs / Parseval: " + PURE,
 "C10": "propagators linear and power conserving: " + PURE,
 "C11": "propagator group laws: compositions of pure functions, result depends on inputs only. " + PURE,
 "C12": "Zernike indexing / orthonormality / gradients: " + PURE,
 "C13": "KL modes orthonormal and diagonalising: " + PURE,
 "C14": "masks and sub-aperture selection exact: " + PURE,
 "C15": "centroider equivariances: relations between pure calls (the stack-vs-frame clause overlaps C20's batch check). " + PURE,
 "C16": "binning / zoom / radial reductions: " + PURE,
 "C17": "conversions mutually inverse: " + PURE,
 "C19": "estimators implement their definitions: " + PURE + ". The one clause with an environment dimension (value at lag 0 read from uninitialised memory) is covered by C20's poisoned-allocation fault.",
}

CHECKS = {
 "C03": dict(
   technique="deterministic simulation: discrete-event simulated process pool with seeded schedules and scheduling faults; bit-identity oracle over build histories",
   text="Seeded exploration. Every pool the covariance build creates is a discrete-event SimPool; worker count, start latencies, per-task durations, "
        "slow/stalled workers, chunking and every tie-break are drawn from one seed into an explicit plan, so completion orders that an idle OS "
        "almost never produces are as likely as the common one. Histories of builds with the thread count toggled, reconstructor calls and object "
        "re-creation run on 1-3 objects; after every build the matrix must be bit-identical to a fresh single-process build and to every earlier "
        "build of that object. A fraction of runs executes the tasks in real forked worker processes driven in lock-step; a few builds per run "
        "also use the real multiprocessing.Pool to validate the stub. Sampling, not proof: a clean batch is evidence.",
   note="Trusted: SimPool's model of the CPython 3.12 fork-start Pool contract (ordered map, completion-ordered imap_unordered/callbacks, default "
        "chunking, pickle boundary); workers compute one at a time, so shared-memory races between simultaneously running workers are not explored; "
        "worker death is not injected (a real Pool.map hangs there, the property promises nothing).",
   ref="DESIGN.md section 4"),
}

PENDING = {
 "C05": "claimed by design (DESIGN.md section 5) - simulator under construction in this round; listed here until the check is registered",
 "C06": "claimed by design (DESIGN.md section 6) - simulator under construction in this round; listed here until the check is registered",
 "C18": "claimed by design (DESIGN.md section 7) - simulator under construction in this round; listed here until the check is registered",
 "C20": "claimed by design (DESIGN.md section 8) - simulator under construction in this round; listed here until the check is registered",
}

def main():
    checks = []
    for pid, c in sorted(CHECKS.items()):
        checks.append({
            "property_id": pid,
            "quick_cmd": "timeout 900 ./check %s --tier quick" % pid,
            "thorough_cmd": "timeout 7200 ./check %s --tier thorough" % pid,
            "evidence_file": "/verif/evidence/%s.json" % pid,
            "replay_cmd_template": "./check %s --replay {path}" % pid,
            "engine": "detsim",
            "level_claimed": {"category": "exploration", "text": c["text"], "design_ref": c["ref"]},
            "level_note": c["note"],
            "technique": c["technique"],
        })
    na = dict(NA)
    for pid, r in PENDING.items():
        if pid not in CHECKS:
            na[pid] = r
    m = {
        "version": 1,
        "setup_cmd": "./setup.sh",
        "hooks": {"guard": "AOTOOLS_VERIF", "enable": "none needed: every seam is a monkeypatch installed by the checks before `import aotools` "
                  "(multiprocessing pools, OS entropy, clock, numpy.empty, global RNG); the guard name is reserved and unused",
                  "baseline_off_cmd": BASELINE, "source_commits": [], "add_only": True},
        "engines": [{"name": "detsim", "path": "/verif/sim", "serves_properties": sorted(CHECKS),
                     "kind_free_text": "hand-written deterministic simulator: seed -> explicit plan -> execution without PRNG -> event-log digest; "
                                       "ddmin shrinking; replay file = plan; 16-way forked fan-out"}],
        "checks": checks,
        "not_applicable": [{"property_id": k, "reason": v} for k, v in sorted(na.items())],
        "notes": "Checks import aotools from /repo's working tree (PYTHONPATH, no install, no bytecode written). Exit codes: 0 held, 1 VIOLATION, 2 HARNESS-ERROR. "
                 "VERIF_SEED selects the base seed (default 20260926). Genuine defects repaired by fix: commits are recorded in known_findings.json.",
    }
    json.dump(m, open("/verif/MANIFEST.json", "w"), indent=1)
    open("/verif/MANIFEST.json", "a").write("\n")

main()
