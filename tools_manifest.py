#!/usr/bin/env python3
"""development helper: (re)generate MANIFEST.json from one table, so it stays valid and consistent"""
import json

BASELINE = "cd /repo && /venv/bin/python -m pytest -ra -q -p no:cacheprovider --timeout=900 --continue-on-collection-errors"

PURE = "pure function of its input - no schedule, clock, fault, shared state or call history in the statement; deterministic simulation with fault injection has nothing to decide (DESIGN.md section 9)"
NA = {
 "C01": "slope covariance equals the analytic covariance: " + PURE + ". Its multi-process mechanism is covered by C03 (mp == sp bitwise).",
 "C02": "minimum-variance reconstructor identity over PSD matrices: " + PURE,
 "C04": "conditional von Karman law of new rows (matrix identities per configuration): " + PURE + ". For the von Karman variant it is exercised as a by-product of C05's scripted-randomness stage.",
 "C07": "ensemble statistics of FFT screens: with the RNG behind a seam it is a pure function of (parameters, draws); no time or interleaving. " + PURE,
 "C08": "closed-form statistics mutually consistent: " + PURE,
 "C09": "Fourier transform pairs / Parseval: " + PURE,
 "C10": "propagators linear and power conserving: " + PURE,
 "C11": "propagator group laws: compositions of pure functions, result depends on inputs only. " + PURE,
 "C12": "Zernike indexing / orthonormality / gradients: " + PURE,
 "C13": "KL modes orthonormal and diagonalising: " + PURE,
 "C14": "masks and sub-aperture selection exact: " + PURE,
 "C15": "centroider equivariances: relations between pure calls (the stack-vs-frame clause overlaps C20's batch check). " + PURE,
 "C16": "binning / zoom / radial reductions: " + PURE,
 "C17": "conversions mutually inverse: " + PURE,
 "C19": "estimators implement their definitions: " + PURE + ". The one clause with an environment dimension (value at lag 0 read from uninitialised memory) is covered by C20's poisoned-allocation fault.",
}

CHECKS = {
 "C03": dict(
   technique="deterministic simulation: discrete-event simulated process pool with seeded schedules and scheduling faults; bit-identity oracle over build histories",
   text="Seeded exploration. Every pool the covariance build creates is a discrete-event SimPool; worker count, start latencies, per-task durations, "
        "slow/stalled workers, chunking and every tie-break are drawn from one seed into an explicit plan, so completion orders that an idle OS "
        "almost never produces are as likely as the common one. Histories of builds with the thread count toggled, reconstructor calls and object "
        "re-creation run on 1-3 objects; after every build the matrix must be bit-identical to a fresh single-process build and to every earlier "
        "build of that object. A fraction of runs executes the tasks in real forked worker processes driven in lock-step; a few builds per run "
        "also use the real multiprocessing.Pool to validate the stub. Faults beyond scheduling: bounded waits that time out or just make it, a task "
        "that raises MemoryError in its worker (the build may raise, never return a wrong matrix, and the next build must be right), numpy.empty "
        "handing aotools dirty memory, asterisms of up to 13 sensors, uneven sensors, zero-strength layers. Sampling, not proof: a clean batch is evidence.",
   note="Trusted: SimPool's model of the CPython 3.12 fork-start Pool contract (ordered map, completion-ordered imap_unordered/callbacks, default "
        "chunking, pickle boundary); workers compute one at a time, so shared-memory races between simultaneously running workers are not explored; "
        "worker death is not injected (a real Pool.map hangs there, the property promises nothing).",
   ref="DESIGN.md section 4"),
 "C05": dict(
   technique="deterministic simulation: seeded op histories vs shift-register model and read-free twin; scripted-randomness (impulse response) stage for stability and stationary covariance",
   text="Seeded exploration of operation histories (add_row, eight kinds of read, five kinds of print with perturbed numpy print options, held views, "
        "ambient noise: global RNG reseeds/draws, clock jumps, other screens) on 1-3 infinite screens of both variants, incl. requested sizes that differ "
        "from the internal size. After every op a shift-register reference model (exposed screen == previous screen shifted by one row, new row at "
        "index 0, nothing else changed, requested shape, finite) and a twin with the same seed that only ever receives add_row (reads/prints never "
        "alter the screen or the random stream) are compared bytewise. One run in eight puts the von Karman instance's random stream behind a seam "
        "and feeds it zeros and unit impulses: the real add_row then emits the exact impulse responses of the recursion, which decide stability "
        "(decay below 1e-13 within 12000 steps, also from a random start) and the stationary covariance at lags 0..n_columns against an independent "
        "float64 von Karman formula - exactly, without sampling noise; decoy instances that differ in one parameter are created first. Histories also "
        "contain pickle/deepcopy checkpoints, numba thread-count changes and simulated forks; one run in 25 uses an outer scale of 1e3..1e8 pixels for "
        "1200 rows (finite/shape/shift), with an aggregate oracle (divergence, growing impulse response) over the region where the constructor "
        "normally refuses. In a third of the histories an allocating NumPy call inside one add_row raises MemoryError: the call may raise, the screen "
        "must be the old one or a proper one-row shift, later steps are judged as usual. Two open known findings "
        "(divergence for outer scales >= 1e4 pixels). Sampling over configurations and histories, not proof.",
   note="Only public names are used (constructor, add_row, scrn, repr/str). Stationary stage covers the von Karman variant in nx<=24, n_columns<=4, "
        "L0/pixel<=60 with tolerance 1e-5 of the variance (aotools evaluates the covariance at float32-rounded separations); if a refactor's draw "
        "pattern cannot be scripted the stage records 'inconclusive', never an alarm.",
   ref="DESIGN.md section 5"),
 "C06": dict(
   technique="deterministic simulation: seeded interleaving of twin screen actors with noise actors; simulated OS entropy and clock; bytewise twin-trace oracle",
   text="Seeded exploration of schedules that interleave 4-14 screen actors (FFT, sub-harmonic, von Karman, Kolmogorov; every seeded actor twice with the "
        "same seed, siblings with other seeds incl. 0, 2**32, 2**64+1 and an int sequence, >=2 unseeded actors) one library call per step with noise "
        "steps: numpy/python global RNG reseed, draw and set_state, simulated clock jumps, other aotools calls (optimal_grouping consumes the global "
        "RNG), extra screens with the same seeds, gc, print options. Around every screen op the global RNG states must be untouched; at the end twin "
        "traces (initial screen and every added row) must be bytewise equal, different seeds must differ, unseeded calls must differ. OS entropy and "
        "the clock are simulated so unseeded screens replay bit for bit; a sample of runs is re-executed in a fresh interpreter under another "
        "PYTHONHASHSEED, and a run whose digest depends on which unrelated runs preceded it in the process is reported as hidden state. Actors may "
        "overwrite returned screens in place, restart through make_initial_screen(), checkpoint by deepcopy/pickle and step the copy, share one "
        "SeedSequence object, use numpy-typed and neighbouring 64-bit seeds; numba's thread count changes as noise; the live screen of an actor is passed to analysis functions of the library as noise; unseeded objects restart and must give a new screen; a sample of plans is re-run with the "
        "actors in another order in pristine processes.",
   note="Twins are compared with each other on the same tree (no goldens). Pre-emption at library-call granularity (aotools has no threads). "
        "Seeds compared as 'different' are distinct ints or an int vs a 3-element sequence.",
   ref="DESIGN.md section 6"),
}

PENDING = {}

CHECKS["C18"] = dict(
   technique="deterministic simulation: seeded histories of global-RNG states plus an adversarial 'any legal outcome' stub for numpy.random.choice; conservation oracles after every compression call",
   text="Scoped claim. The statement quantifies over all states of NumPy's global random generator (random restarts of optimal_grouping); that is the "
        "nondeterminism the simulator owns: seeded histories of reseeds (incl. edge seeds), set_state, draws and earlier compression calls precede every "
        "call, and in a third of the runs numpy.random.choice is replaced by a stub that validates the request and returns a plan-chosen legal outcome "
        "(lowest, highest, adjacent run, reversed, seeded sample, duplicates when sampling with replacement is requested), i.e. randomness is treated as "
        "scheduler nondeterminism. After every call: exactly L layers, strengths >= 0, total Cn2 conserved to 1e-12, heights are input heights in "
        "increasing order inside their groups, cost of the returned grouping not above the equal split; equivalent_layers: total, 5/3 height and wind "
        "moments; GCTM: L layers, non-negative, objective not above its starting point. The equivalent-layers and GCTM clauses have no RNG/history "
        "dimension and ride along as workload oracles on the same profiles (N 2-40 (100 thorough), regular/irregular/clustered/log/surface-gap heights "
        "incl. duplicates, 6 decades of strength, integer/strided/read-only arrays, shuffled layer order, other units, L 1..N-1); arrays are refilled in "
        "place between calls and returned arrays must stay unchanged afterwards; GCTM is also compared with an independent optimiser. Sampling, not proof.",
   note="The grouping is reconstructed from the returned strengths (contiguous groups); equal split = numpy.linspace(0,N,L+1,dtype=int) or numpy.array_split, "
        "passing either suffices. GCTM only on profiles whose L equal-thickness slabs are all non-empty.",
   ref="DESIGN.md section 7")
CHECKS["C20"] = dict(
   technique="deterministic simulation: programs of public calls by several simulated callers on a shared array heap; line-level argument monitor; injected write protection, aliasing, re-allocation and poisoned numpy.empty; repeat-call / fresh-copy / batch-vs-item history oracles",
   text="Seeded exploration of programs: 1-3 simulated callers issue 5-40 public aotools calls (registry of 89 of the 97 public callables; the rest are "
        "excluded with a reason or covered through their parent) whose array arguments come from a shared heap (float64/float32/int64/complex128; C, "
        "Fortran, strided, frames that are views of a stack, write-protected), interleaved call by call, with repeats of earlier calls, heap "
        "re-allocation (id() reuse), ambient RNG reseeds and, per call, numpy.empty poisoned with a different value per allocation when called from "
        "aotools frames. Invariants: at every executed line of an aotools frame and after the call every argument array (and the whole heap) is "
        "bit-identical to its snapshot; the same call later in the history returns a bytewise equal result; the call on fresh copies of the arguments "
        "returns an equal result; stack calls (3-D and 4-D) equal per-item calls; arrays returned earlier never change later; numpy error state, print "
        "options, warnings filters, cwd, environment and both global RNGs are identical before and after every call; callers overwrite returned arrays "
        "and refill heap arrays in place; complex, big-endian and all-zero inputs; NaN pixels, two image sizes; some calls leave out every argument that only repeats a default (the function's own default objects are used), and every second program has a sweeping caller that calls three functions (chosen by run index: every registered function is swept) on every array they accept; a sample of programs is re-run in reverse order in pristine "
        "processes. A run whose digest depends on which unrelated runs preceded it in the process is reported as hidden state. Sampling, not proof.",
   note="An exception is a result (same type again = equal). A write-protected argument that makes a call raise is judged on a writable copy. "
        "Results on fresh copies and batch-vs-item are compared with rtol 1e-9 (1e-4 when single precision is involved). numba kernels are opaque to "
        "the line monitor. One open known finding (centre_of_gravity stack vs frame with threshold != 0).",
   ref="DESIGN.md section 8")

def main():
    checks = []
    for pid, c in sorted(CHECKS.items()):
        checks.append({
            "property_id": pid,
            "quick_cmd": "timeout 900 ./check %s --tier quick" % pid,
            "thorough_cmd": "timeout 7200 ./check %s --tier thorough" % pid,
            "evidence_file": "/verif/evidence/%s.json" % pid,
            "replay_cmd_template": "./check %s --replay {path}" % pid,
            "engine": "detsim",
            "level_claimed": {"category": "exploration", "text": c["text"], "design_ref": c["ref"]},
            "level_note": c["note"],
            "technique": c["technique"],
        })
    na = dict(NA)
    for pid, r in PENDING.items():
        if pid not in CHECKS:
            na[pid] = r
    m = {
        "version": 1,
        "setup_cmd": "./setup.sh",
        "hooks": {"guard": "AOTOOLS_VERIF", "enable": "none needed: every seam is a monkeypatch installed by the checks before `import aotools` "
                  "(multiprocessing pools, OS entropy, clock, numpy.empty, global RNG); the guard name is reserved and unused",
                  "baseline_off_cmd": BASELINE, "source_commits": [], "add_only": True},
        "engines": [{"name": "detsim", "path": "/verif/sim", "serves_properties": sorted(CHECKS),
                     "kind_free_text": "hand-written deterministic simulator: seed -> explicit plan -> execution without PRNG -> event-log digest; "
                                       "ddmin shrinking; replay file = plan; 16-way forked fan-out"}],
        "checks": checks,
        "not_applicable": [{"property_id": k, "reason": v} for k, v in sorted(na.items())],
        "notes": "Checks import aotools from /repo's working tree (PYTHONPATH, no install, no bytecode written). Exit codes: 0 held, 1 VIOLATION, 2 HARNESS-ERROR. "
                 "VERIF_SEED selects the base seed (default 20260926). Genuine defects repaired by fix: commits are recorded in known_findings.json.",
    }
    json.dump(m, open("/verif/MANIFEST.json", "w"), indent=1)
    open("/verif/MANIFEST.json", "a").write("\n")

main()
